"""Shared bounded-exhaustive message generator for C01 and the encoder half of C02.

A *spec* is a hashable, JSON-able description of one encode call:

    (t, tk, body, mode, ctr, num, pos)

    t     message type text                 tk   "enum" (FMsg member) | "str"
    body  tuple of entries; entry = (tag, value) | (tag, (item, item, ...)),
          item = tuple of entries (recursively)
    mode  numbering mode (MODES)            ctr  session.next_num_out before the call
    num   MsgSeqNum carried by the message (or None)
    pos   where the mode's own fields (34 / 43 / 122) sit relative to the body:
          "head" | "tail" | "split" (34 first, 43 + 122 last - the shape the
          library itself builds when it retransmits)

The space is cut into *units* (family, args...) that are expanded inside worker
processes (`expand`), simplest first.  Nothing here is random; VERIF_SEED only
rotates the CompIDs.

The generator reads two things from the library because the property is stated
relative to them: the repeating-group table and the list of standard message
types.  Everything else (what is well formed, how a spec becomes a message) is
written here from the property / DESIGN.md text.
"""
import hashlib
import itertools

POOL = [("SRV", "CLI"), ("ACC", "INI"), ("S1", "T1"), ("EXCH", "FIRM")]

# tags the encoder owns (never part of a well-formed body)
FRAME_TAGS = ("8", "9", "35", "10", "49", "56", "34", "52")

MODES = (
    "alloc",          # plain message: number allocated from the session counter
    "possdup_n",      # PossDupFlag=N explicitly, no number carried: allocate
    "possdup_n_num",  # PossDupFlag=N and a stale 34 in the message: allocate
    "forward",        # a message decoded from ANOTHER session is sent on: it carries foreign 49 / 56 / 52; allocate
    "possdup",        # PossDupFlag=Y + carried 34: keep
    "seqreset",       # SequenceReset + carried 34: keep
    "raw",            # raw_seq_num=True + carried 34: keep
    "err_possdup",    # PossDupFlag=Y, nothing carried
    "err_seqreset",   # SequenceReset, nothing carried
    "err_raw",        # raw_seq_num=True, nothing carried
)
ALLOC_MODES = ("alloc", "possdup_n", "possdup_n_num", "forward")
KEEP_MODES = ("possdup", "seqreset", "raw")
ERR_MODES = ("err_possdup", "err_seqreset", "err_raw")

COUNTERS = (1, 9, 10, 999999, 2 ** 31)
CARRIED = (7, 1, 999999, 2 ** 31)

CUSTOM_TYPES = ("U1", "UZZ", "zz")

# --------------------------------------------------------------------------
# value atoms
# --------------------------------------------------------------------------
SPECIAL_ATOMS = (
    "=", "a=b", "==", "=a", "a=",
    "10=", "10=123", "10=000", "9=12", "35=D", "8=", "8=FIX", "34=1",
    "FIX.4.4", "FIX.", "=FIX.4.4",
    "8=FIX.", "8=FIX.4.4", "x8=FIX.4.4y", "8=FIX.4.2",
    " ", " a", "a ", " a ", "a b", "  ",
    "|", "a|b", "|10=000|",
    "0", "-1", "1e5", "Y", "20240101-00:00:00.000",
)
VALM_QUICK = ("=", "10=000", "9=12", "8=FIX.4.4", "FIX.4.4", " a ", "|", "\xe9")
SMALL_ALPHABET = ("a", "=", "1", "0", "8", " ", "|", ".")
LATIN1_QUICK = ("\xe9", "caf\xe9", "\xa0", "\xff", "\xa3\xb5")
NON_ASCII_C02 = (
    "\xe9", "caf\xe9 au lait", "€", "10€", "中文", "\U0001f600", "a\U0001f600b",
    "\xff\xfe", "Ж", "\ud800",
)


def printable_ascii():
    return [chr(c) for c in range(0x20, 0x7F)]


def small_strings(maxlen):
    out = []
    for n in range(1, maxlen + 1):
        for t in itertools.product(SMALL_ALPHABET, repeat=n):
            out.append("".join(t))
    return out


def atoms(cfg, non_ascii=False):
    """Ordered, duplicate-free atom list for the tier."""
    out = []
    seen = set()

    def add(xs):
        for x in xs:
            if x not in seen and x != "":
                seen.add(x)
                out.append(x)

    add(["x"])
    add(SPECIAL_ATOMS)
    add(printable_ascii())
    add(small_strings(cfg["small_len"]))
    add(LATIN1_QUICK)
    if cfg["latin1_all"]:
        add([chr(c) for c in range(0xA0, 0x100)])
    if non_ascii:
        add(NON_ASCII_C02)
    return out


# --------------------------------------------------------------------------
# the table
# --------------------------------------------------------------------------
class Table:
    def __init__(self, raw=None):
        if raw is None:
            # The reference is "the FIX 4.4 group table" as given with the property (a snapshot of the table at
            # the pinned commit), NOT whatever table the library has right now: a slip in one row of the
            # library's table must show up as a round-trip failure, not silently move the generator with it.
            import json
            import os

            snap = os.path.join(os.path.dirname(os.path.abspath(__file__)), "c01_table.json")
            if os.path.exists(snap):
                with open(snap) as f:
                    raw = json.load(f)
            else:
                from asyncfix.protocol import FIXProtocol44

                raw = FIXProtocol44.repeating_groups
        self.rg = {str(k): [str(m) for m in v] for k, v in raw.items()}
        self.all_members = set()
        for v in self.rg.values():
            self.all_members.update(v)
        self.order = sorted(self.rg, key=lambda g: (self.depth(g), len(self.rg[g]), int(g)))

    def depth(self, g):
        return 1 + max([self.depth(m) for m in self.rg[g] if m in self.rg] or [0])

    def nested(self, g):
        return [m for m in self.rg[g] if m in self.rg]

    def plain_others(self, g):
        return [m for m in self.rg[g][1:] if m not in self.rg]

    def closure(self, g):
        s = set(self.rg[g])
        for m in self.rg[g]:
            if m in self.rg:
                s |= self.closure(m)
                s.add(m)
        return s

    def usable(self, g):
        """A definition can be generated if its delimiter is a plain tag."""
        return bool(self.rg[g]) and self.rg[g][0] not in self.rg


TABLE = None
CFG = None
ST = POOL[0]


def msg_types():
    from asyncfix import FMsg

    return [m.value for m in FMsg]


# --------------------------------------------------------------------------
# tiers
# --------------------------------------------------------------------------
def config(tier, seed):
    quick = tier == "quick"
    return {
        "tier": tier,
        "seed": seed,
        "small_len": 2 if quick else 3,
        "pair_atoms": 40 if quick else 100,
        "latin1_all": not quick,
        "flat_pool": ("1", "11", "55", "58", "448", "5001", "20228", "100000")
        if quick
        else ("1", "11", "55", "58", "448", "523", "5001", "9999", "20228", "100000"),
        "flat_k": 3,
        "subset_k": 2 if quick else 4,   # optional-member subsets per item
        "subset_k_small": 3 if quick else 5,  # ... for definitions with <= 8 members
        "mixed_len": 3 if quick else 4,                  # items with different member sets: tuples up to this length
        "mixed_family": 5 if quick else 7,
        "items_max": 3,
        "nest_w1": 3 if quick else 6,    # how many nested instance variants are combined pairwise
        "nest_triples": True,
        "nest_pairs": 1 if quick else 12,
        "sib3_all": not quick,
        "sib_r": 3 if quick else 5,
        "valm_atoms": VALM_QUICK if quick else None,  # None = the tier's full atom list
        "cross_modes": (("possdup", "split"), ("possdup", "tail"), ("raw", "split"), ("raw", "tail"))
        if quick
        else (("possdup", "split"), ("possdup", "tail"), ("possdup", "head"), ("raw", "head"), ("raw", "tail"),
              ("possdup_n_num", "head"), ("possdup_n_num", "tail"), ("possdup_n", "tail")),
        "cross_stride": 2 if quick else 1,
    }


def configure(tier, seed):
    global TABLE, CFG, ST
    TABLE = Table()
    CFG = config(tier, seed)
    ST = POOL[seed % len(POOL)]
    return CFG


# --------------------------------------------------------------------------
# well-formedness (DESIGN.md C01, "Well-formed")
# --------------------------------------------------------------------------
def is_group(entry):
    return isinstance(entry[1], (tuple, list))


def _chain_members(tb, entry):
    """Member tags of every group still open right after this group instance."""
    tag, items = entry
    s = set(tb.rg[tag])
    last = items[-1]
    if last and is_group(last[-1]):
        s |= _chain_members(tb, last[-1])
    return s


def _wf_entries(tb, entries, owner):
    """owner None => top level, else the group tag whose item this is."""
    if owner is not None:
        members = tb.rg[owner]
        if not entries or entries[0][0] != members[0]:
            return "item does not start with the first member"
        idx = -1
        for e in entries:
            if e[0] not in members:
                return "non-member inside an item"
            j = members.index(e[0])
            if j <= idx:
                return "members out of table order / repeated"
            idx = j
    seen = set()
    for i, e in enumerate(entries):
        tag = e[0]
        if not (isinstance(tag, str) and tag.isdigit() and str(int(tag)) == tag and int(tag) > 0):
            return "tag is not a canonical positive integer"
        if tag in seen:
            return "tag repeated in one container"
        seen.add(tag)
        if owner is None and tag in FRAME_TAGS:
            return "header/trailer tag in the body"
        if is_group(e):
            if tag not in tb.rg:
                return "group tag not in the table"
            if len(e[1]) < 1:
                return "empty group"
            for k, it in enumerate(e[1]):
                r = _wf_entries(tb, it, tag)
                if r:
                    return r
                if k + 1 < len(e[1]) and it and is_group(it[-1]):
                    if e[1][k + 1][0][0] in _chain_members(tb, it[-1]):
                        return "next item's first tag is a member of a group still open"
            if i + 1 < len(entries) and entries[i + 1][0] in _chain_members(tb, e):
                return "tag after a group is a member of a group still open"
        else:
            if tag in tb.rg:
                return "count tag used as a plain field"
            v = e[1]
            if not isinstance(v, str) or v == "" or "\x01" in v:
                return "value empty or contains SOH"
    return None


def well_formed(body, tb=None):
    """None if the body is well formed w.r.t. the table, else the reason."""
    return _wf_entries(tb or TABLE, body, None)


def valid(spec):
    """Combination rules of type and numbering mode (what the modes mean)."""
    t, tk, body, mode, ctr, num, pos = spec
    if mode not in MODES:
        return False
    if not isinstance(t, str) or t == "" or "\x01" in t:
        return False
    if mode in ("seqreset", "err_seqreset"):
        if t != "4":
            return False
    elif t == "4" and mode not in ("raw", "err_raw"):
        return False
    if (mode in KEEP_MODES or mode == "possdup_n_num") != (num is not None):
        return False
    for e in body:
        if e[0] in ("43", "122"):
            return False
    return well_formed(body) is None


# --------------------------------------------------------------------------
# spec -> library objects, spec -> expectation
# --------------------------------------------------------------------------
def mode_fields(mode, num, pos):
    """([fields before the body], [fields after the body]) the mode adds to the message."""
    n = [("34", str(num))] if num is not None else []
    if mode in ("alloc", "err_seqreset", "err_raw"):
        own = []
    elif mode in ("possdup", "err_possdup"):
        own = [("43", "Y")]
    elif mode in ("possdup_n", "possdup_n_num"):
        own = [("43", "N")]
    elif mode == "forward":
        own = [("49", "FWDSND"), ("56", "FWDTGT"), ("52", "20200101-00:00:00.000")]
    else:  # seqreset, raw
        own = []
    if pos == "head":
        return n + own, []
    if pos == "tail":
        return [], n + own
    extra = [("122", "20240101-00:00:00.000")] if own and mode != "forward" else []
    return n, own + extra


def _put(container, entry, FIXContainer):
    tag, v = entry
    if is_group(entry):
        items = []
        for it in v:
            c = FIXContainer()
            for e in it:
                _put(c, e, FIXContainer)
            items.append(c)
        container.set_group(tag, items)
    else:
        container.set(tag, v)


def build(spec, S, T):
    """(msg, session, raw_seq_num) - fresh objects for one encode call."""
    from asyncfix import FIXMessage, FMsg
    from asyncfix.message import FIXContainer
    from asyncfix.session import FIXSession

    t, tk, body, mode, ctr, num, pos = spec
    msg = FIXMessage(FMsg(t) if tk == "enum" else t)
    head, tail = mode_fields(mode, num, pos)
    for e in head:
        msg.set(*e)
    for e in body:
        _put(msg, e, FIXContainer)
    for e in tail:
        msg.set(*e)
    sess = FIXSession("k", T, S)
    sess.next_num_out = ctr
    sess.next_num_in = 1
    return msg, sess, mode in ("raw", "err_raw")


def expected_body(spec):
    """What the decoded message must carry between header and trailer."""
    t, tk, body, mode, ctr, num, pos = spec
    head, tail = mode_fields(mode, num, pos)
    drop = ("34", "52", "49", "56")
    return tuple(e for e in head if e[0] not in drop) + tuple(body) + tuple(e for e in tail if e[0] not in drop)


def to_json(spec):
    def conv(entries):
        return [[e[0], [conv(it) for it in e[1]]] if is_group(e) else [e[0], e[1]] for e in entries]

    t, tk, body, mode, ctr, num, pos = spec
    return {"t": t, "tk": tk, "body": conv(body), "mode": mode, "ctr": ctr, "num": num, "pos": pos}


def from_json(d):
    def conv(entries):
        return tuple(
            (str(e[0]), tuple(conv(it) for it in e[1])) if isinstance(e[1], (list, tuple)) else (str(e[0]), e[1])
            for e in entries
        )

    return (d["t"], d["tk"], conv(d["body"]), d["mode"], d["ctr"], d["num"], d["pos"])


def digest(spec):
    return hashlib.blake2b(repr(spec).encode("utf-8", "surrogatepass"), digest_size=8).digest()


# --------------------------------------------------------------------------
# classification of an input (cause classes)
# --------------------------------------------------------------------------
def walk_fields(body):
    """Every plain (tag, value) of the body in wire order."""
    for e in body:
        if is_group(e):
            for it in e[1]:
                yield from walk_fields(it)
        else:
            yield e


def vclass(tag, v):
    if v.isalnum() and v.isascii():
        return "plain"
    if "8=FIX." in v:
        return "value_contains_frame_start_marker"
    if "8=FIX." in tag + "=" + v:
        return "tag_and_value_form_frame_start_marker"
    if any(ord(c) > 255 for c in v):
        return "non_latin1_value"
    if any(ord(c) > 127 for c in v):
        return "latin1_high_value"
    if v.startswith("10="):
        return "value_like_checksum_field"
    if v.startswith("9="):
        return "value_like_bodylength_field"
    if v.startswith("35="):
        return "value_like_msgtype_field"
    if v.startswith("8="):
        return "value_like_beginstring_field"
    if "=" in v:
        return "value_with_equals"
    if v != v.strip(" "):
        return "value_with_edge_blank"
    if "|" in v:
        return "value_with_pipe"
    if not v.replace(".", "").replace("-", "").replace(":", "").isalnum():
        return "value_with_punctuation"
    return "plain"


VORDER = (
    "value_contains_frame_start_marker", "tag_and_value_form_frame_start_marker", "non_latin1_value",
    "latin1_high_value", "value_like_checksum_field", "value_like_bodylength_field", "value_like_msgtype_field",
    "value_like_beginstring_field", "value_with_equals", "value_with_edge_blank", "value_with_pipe",
    "value_with_punctuation", "plain",
)


def value_class(body):
    best = len(VORDER) - 1
    for tag, v in walk_fields(body):
        best = min(best, VORDER.index(vclass(tag, v)))
    return VORDER[best]


def _depth(entries):
    d = 0
    for e in entries:
        if is_group(e):
            d = max(d, 1 + max(_depth(it) for it in e[1]))
    return d


def _struct_flags(entries, flags, top):
    groups = [i for i, e in enumerate(entries) if is_group(e)]
    if len(groups) >= 2:
        flags.add("sibling_groups")
    for i in groups:
        if i + 1 < len(entries) and not is_group(entries[i + 1]):
            flags.add("tag_after_group" if top else "member_after_nested_group")
        if top and i > 0 and not is_group(entries[i - 1]):
            flags.add("tag_before_group")
        items = entries[i][1]
        if len(items) >= 2:
            flags.add("multi_item")
            if len({tuple(e[0] for e in it) for it in items}) > 1:
                flags.add("mixed_items")
        for it in items:
            if len([e for e in it if not is_group(e)]) > 1:
                flags.add("optional_member")
            _struct_flags(it, flags, False)


SFLAGS = ("sibling_groups", "tag_after_group", "member_after_nested_group", "tag_before_group", "mixed_items",
          "multi_item", "optional_member")


def struct_class(body):
    d = _depth(body)
    if d == 0:
        return "flat" if body else "empty_body"
    flags = set()
    _struct_flags(body, flags, True)
    if "mixed_items" in flags:
        flags.discard("multi_item")
    return "+".join(["group_depth%d" % d] + [f for f in SFLAGS if f in flags])


def type_class(spec):
    t, tk = spec[0], spec[1]
    if t == "D" and tk == "enum":
        return ""
    if tk == "str" and t in ("D", "0", "A", "4", "8"):
        return "type_given_as_text"
    if t in CUSTOM_TYPES:
        return "custom_type"
    return "type_len%d" % len(t)


def mode_class(spec):
    t, tk, body, mode, ctr, num, pos = spec
    parts = []
    if mode != "alloc":
        parts.append("mode_" + mode)
        if pos != "head" and mode not in ("err_seqreset", "err_raw", "alloc"):
            parts.append("numbering_fields_" + pos)
    if ctr != 1 and mode in ALLOC_MODES:
        parts.append("counter_%s" % ("2pow31" if ctr == 2 ** 31 else ctr))
    if num not in (None, 7):
        parts.append("carried_%s" % ("2pow31" if num == 2 ** 31 else num))
    return "+".join(parts)


def coarse_class(spec):
    """Cheap grouping key of a failing input (one shrink run per key)."""
    d = _depth(spec[2])
    return (value_class(spec[2]), "depth0" if d == 0 else "depth1" if d == 1 else "nested", mode_class(spec),
            type_class(spec))


def cause_label(spec):
    """Cause class of a (shrunk) input: only what is not at its simplest setting."""
    body = spec[2]
    parts = []
    vc = value_class(body)
    if vc != "plain":
        parts.append(vc)
    sc = struct_class(body)
    if sc not in ("flat", "empty_body") or (vc == "plain" and sc == "flat" and len(body) > 1):
        parts.append(sc if sc != "flat" else "flat_fields%d" % len(body))
    mc = mode_class(spec)
    if mc:
        parts.append(mc)
    tc = type_class(spec)
    if tc:
        parts.append(tc)
    return "+".join(parts) if parts else "any_message"


def nontrivial(spec):
    body = spec[2]
    return (
        spec[3] != "alloc"
        or value_class(body) != "plain"
        or _depth(body) >= 2
        or any(is_group(e) and len(e[1]) > 1 for e in body)
    )


# --------------------------------------------------------------------------
# shrinking (delta debugging over the spec tree; deterministic, greedy)
# --------------------------------------------------------------------------
def _shrink_entries(entries):
    """Simpler variants of a list of entries (one edit each)."""
    n = len(entries)
    for i in range(n):
        yield entries[:i] + entries[i + 1:]
    for i, e in enumerate(entries):
        if is_group(e):
            items = e[1]
            if len(items) > 1:
                for k in range(len(items)):
                    yield entries[:i] + ((e[0], items[:k] + items[k + 1:]),) + entries[i + 1:]
            for k, it in enumerate(items):
                for v in _shrink_entries(it):
                    if not v:
                        continue
                    yield entries[:i] + ((e[0], items[:k] + (v,) + items[k + 1:]),) + entries[i + 1:]
        elif e[1] != "x" and vclass(e[0], e[1]) != "plain":
            yield entries[:i] + ((e[0], "x"),) + entries[i + 1:]
            if len(e[1]) > 1:
                # shorter values of the same flavour
                for cut in (e[1][1:], e[1][:-1]):
                    if cut:
                        yield entries[:i] + ((e[0], cut),) + entries[i + 1:]


def _walk_groups(entries, top=False):
    """Every nested group entry (not the top-level ones themselves unless the body has more than that)."""
    for e in entries:
        if is_group(e):
            if not top:
                yield e
            for it in e[1]:
                yield from _walk_groups(it)


def _shrink_candidates(spec):
    t, tk, body, mode, ctr, num, pos = spec
    if mode != "alloc":
        yield ("D", "enum", body, "alloc", 1, None, "head")
        yield (t, tk, body, "alloc", ctr, None, "head")
        if mode in ("seqreset",):
            yield ("D", "enum", body, "raw", ctr, num, pos)
        if mode in ("possdup_n_num",):
            yield (t, tk, body, "possdup_n", ctr, None, pos)
    if (t, tk) != ("D", "enum"):
        yield ("D", "enum", body, mode, ctr, num, pos)
        if tk != "enum" and t in msg_types():
            yield (t, "enum", body, mode, ctr, num, pos)
    if ctr != 1:
        yield (t, tk, body, mode, 1, num, pos)
    if num not in (None, 7):
        yield (t, tk, body, mode, ctr, 7, pos)
    if pos != "head":
        yield (t, tk, body, mode, ctr, num, "head")
    # hoist: one field / one (nested) group instance alone at top level
    if len(body) > 1 or _depth(body) > 0:
        for tag, v in walk_fields(body):
            if vclass(tag, v) != "plain" and tag not in FRAME_TAGS:
                yield (t, tk, ((tag, v),), mode, ctr, num, pos)
        for e in _walk_groups(body, top=True):
            yield (t, tk, (e,), mode, ctr, num, pos)
    for b in _shrink_entries(body):
        yield (t, tk, b, mode, ctr, num, pos)


def shrink(spec, still_fails, budget=3000):
    """Greedy one-edit-at-a-time minimisation; `still_fails(spec) -> bool`."""
    cur = spec
    used = 0
    progress = True
    while progress and used < budget:
        progress = False
        for cand in _shrink_candidates(cur):
            if cand == cur or not valid(cand):
                continue
            used += 1
            if still_fails(cand):
                cur = cand
                progress = True
                break
            if used >= budget:
                break
    return cur


# --------------------------------------------------------------------------
# shapes
# --------------------------------------------------------------------------
def fill(entries, counter=None):
    """Replace None values by distinct plain values v1, v2, ... in wire order."""
    if counter is None:
        counter = [0]
    out = []
    for e in entries:
        if is_group(e):
            out.append((e[0], tuple(fill(it, counter) for it in e[1])))
        elif e[1] is None:
            counter[0] += 1
            out.append((e[0], "v%d" % counter[0]))
        else:
            out.append(e)
    return tuple(out)


def make_item(g, plain=(), nested=None):
    """Item of group g: delimiter + chosen plain members + chosen nested instances, in table order."""
    nested = nested or {}
    members = TABLE.rg[g]
    out = [(members[0], None)]
    for m in members[1:]:
        if m in nested:
            out.append((m, nested[m]))
        elif m in plain:
            out.append((m, None))
    return tuple(out)


def subsets(xs, kmax):
    for k in range(0, kmax + 1):
        for c in itertools.combinations(xs, k):
            yield c


def reduced_family(g, width):
    """Small family of optional-member sets: none, first, last, first+last, all, (second, middle)."""
    o = TABLE.plain_others(g)
    fam = [()]
    if o:
        cands = [(o[0],), (o[-1],), (o[0], o[-1]), tuple(o)]
        if width > 5 and len(o) > 2:
            cands += [(o[1],), (o[len(o) // 2],)]
        for c in cands:
            c = tuple(dict.fromkeys(c))
            if c not in fam:
                fam.append(c)
    return fam[:width]


def leaf_instances(g):
    d = make_item(g)
    o = TABLE.plain_others(g)
    if not o:
        return [(d,), (d, d)]
    a = make_item(g, o)
    return [(d,), (a,), (d, d), (a, a), (a, d), (d, a)]


def nested_instances(g, level):
    """Instances of g when it sits inside another group's item (level >= 1)."""
    ns = TABLE.nested(g)
    if not ns:
        li = leaf_instances(g)
        if level <= 1:
            return li
        return list(dict.fromkeys([li[0], li[3 if len(li) > 3 else -1], li[4 if len(li) > 4 else -1]]))
    o = TABLE.plain_others(g)
    fam = [(), tuple(o)] if o else [()]
    items = []
    for p in fam:
        items.append(make_item(g, p))
        for n in ns:
            for inst in nested_instances(n, level + 1):
                items.append(make_item(g, p, {n: inst}))
        if len(ns) > 1:
            items.append(make_item(g, p, {n: nested_instances(n, level + 1)[0] for n in ns}))
    items = list(dict.fromkeys(items))
    out = [(it,) for it in items]
    if level <= 1:
        out += [(it, it) for it in items]
    else:
        out += [(it, it) for it in (items[0], items[-1])]
    out += [(items[0], items[-1]), (items[-1], items[0])]
    return list(dict.fromkeys(out))


def top_item_variants(g):
    """Item shapes of g at top level with nested groups."""
    ns = TABLE.nested(g)
    o = TABLE.plain_others(g)
    fam = reduced_family(g, 4)
    w = CFG["nest_w1"]
    per = {n: nested_instances(n, 1) for n in ns}

    def pick(lst):
        if len(lst) <= w:
            return lst
        step = (len(lst) - 1) / (w - 1)
        return [lst[round(i * step)] for i in range(w)]

    choices = []
    for n in ns:
        for inst in per[n]:
            choices.append({n: inst})
    for a, b in itertools.combinations(ns, 2):
        for ia in pick(per[a]):
            for ib in pick(per[b]):
                choices.append({a: ia, b: ib})
    if len(ns) > 2:
        choices.append({n: per[n][0] for n in ns})
        choices.append({n: per[n][-1] for n in ns})
    items = []
    for p in fam:
        for ch in choices:
            items.append(make_item(g, p, ch))
    return list(dict.fromkeys(items))


def rep_instances(g, r):
    """r representative instances of g for context / sibling families (simplest first)."""
    d = make_item(g)
    o = TABLE.plain_others(g)
    ns = TABLE.nested(g)
    full = make_item(g, o, {n: nested_instances(n, 1)[-1] for n in ns})
    fam = reduced_family(g, 4)
    cands = [(d,), (full, full)]
    if len(fam) > 2:
        cands.append((make_item(g, fam[1]), make_item(g, fam[2])))
    else:
        cands.append((full, d))
    if ns:
        cands.append((make_item(g, (), {ns[-1]: nested_instances(ns[-1], 1)[-1]}),))
    else:
        cands.append((d, full, d))
    cands.append((full, d, full))
    return list(dict.fromkeys(cands))[:r]


def nonmember_tags():
    out = [t for t in ("55", "58", "1", "60", "5001", "20228") if t not in TABLE.all_members and t not in TABLE.rg]
    return out


def foreign_member(g):
    """First member of another definition that is not inside g's closure."""
    cl = TABLE.closure(g) | {g}
    for h in TABLE.order:
        m = TABLE.rg[h][0]
        if h != g and h not in cl and m not in cl and m not in TABLE.rg:
            return m
    return None


HDR_TRAILER_TAGS = ("50", "57", "89", "90", "91", "93", "97", "115", "116", "122", "128", "129", "142", "143", "144",
                    "145", "212", "213", "347", "369")


# --------------------------------------------------------------------------
# C02 only: messages that CANNOT be represented as a well-formed frame (the encoder / the
# connection must refuse them). They are outside C01's domain (`valid` is False for all of them).
# --------------------------------------------------------------------------
FRAMING_TAGS = ("8", "9", "35", "10")
UNREP_CLASSES = ("empty_msgtype", "framing_tag_in_message", "soh_in_value", "noncanonical_tag_spelling",
                 "empty_value")
SOH_VALUES = (
    "line1\x01line2", "\x01", "x\x01", "\x01x", "a\x01\x01b", "58=a\x0159=b",
    "x\x0110=000\x018=FIX.4.4\x019=5\x0135=5", "x\x0110=000",
)
TAG_SPELLINGS = (" 58", "58 ", "+58", "5_8", "58\n", "\t58", "-1", "0", "058", "00", "-0", "+0",
                 "\u0665\u0668", "\uff15\uff18", "5\u0668", " 8", "+10", "010", "9 ")


def canonical_tag(tag):
    return isinstance(tag, str) and tag.isascii() and tag.isdigit() and tag[:1] != "0"


def _walk_entries(entries):
    for e in entries:
        yield e
        if is_group(e):
            for it in e[1]:
                yield from _walk_entries(it)


def unrep_class(spec):
    """Why a message cannot be represented as one well-formed frame (None if no such reason is known).
    Computed from the input only; the first matching class names the cause."""
    t, body = spec[0], spec[2]
    if t == "":
        return "empty_msgtype"
    ents = list(_walk_entries(body))
    if any(e[0] in FRAMING_TAGS for e in ents):
        return "framing_tag_in_message"
    if "\x01" in t or any(not is_group(e) and isinstance(e[1], str) and "\x01" in e[1] for e in ents):
        return "soh_in_value"
    if any(not canonical_tag(e[0]) for e in ents):
        return "noncanonical_tag_spelling"
    if any(not is_group(e) and e[1] == "" for e in ents):
        return "empty_value"
    return None


def _unrep_at(field, where):
    """Body with `field` at message level (front / middle / end) or inside a group item."""
    a, b = ("11", "v1"), ("55", "v2")
    if where == "alone":
        return (field,)
    if where == "front":
        return (field, a, b)
    if where == "middle":
        return (a, field, b)
    if where == "end":
        return (a, b, field)
    grp_ok = "453" in TABLE.rg and TABLE.rg["453"][:1] == ["448"]
    if not grp_ok:
        return None
    if where == "item_first":   # in place of / before the delimiter of the first item
        return (a, ("453", ((field, ("448", "p1")), (("448", "p2"),))), b)
    if where == "item_last":    # last field of the last item (right before the trailer)
        return (a, ("453", ((("448", "p1"),), (("448", "p2"), field))))
    if where == "nested_item" and "802" in TABLE.rg["453"]:
        return (a, ("453", ((("448", "p1"), ("802", ((("523", "s1"), field),))),)), b)
    return None


UNREP_WHERE = ("alone", "front", "middle", "end", "item_first", "item_last", "nested_item")


def _unrep_specs(klass):
    def at(field, **kw):
        for where in UNREP_WHERE:
            b = _unrep_at(field, where)
            if b is not None:
                yield (kw.get("t", "D"), kw.get("tk", "enum"), b, kw.get("mode", "alloc"), kw.get("ctr", 1),
                       kw.get("num"), kw.get("pos", "head"))

    if klass == "framing_tag_in_message":
        vals = {"8": ("FIX.4.4", "FIX.4.2"), "9": ("90", "5"), "35": ("D", "0"), "10": ("000", "012")}
        for tag in FRAMING_TAGS:
            for v in vals[tag]:
                yield from at((tag, v))
        # the tag map of a decoded message that the application sends on (echo / drop copy / routing)
        dec = (("8", "FIX.4.4"), ("9", "90"), ("35", "D"))
        for mode in ("alloc", "forward"):
            yield ("D", "enum", dec + (("11", "v1"), ("55", "v2"), ("10", "012")), mode, 1, None, "head")
            yield ("D", "enum", (("11", "v1"),) + dec + (("55", "v2"), ("10", "012")), mode, 1, None, "tail")
            yield ("D", "enum", (("11", "v1"), ("55", "v2")) + dec + (("10", "012"),), mode, 1, None, "head")
            yield ("D", "enum", (("10", "012"),) + dec + (("11", "v1"),), mode, 1, None, "head")
        yield ("D", "enum", dec + (("11", "v1"), ("10", "012")), "possdup", 1, 7, "split")
        yield ("0", "enum", (("8", "FIX.4.4"), ("10", "000")), "alloc", 1, None, "head")
    elif klass == "soh_in_value":
        for v in SOH_VALUES:
            yield from at(("58", v))
        yield ("5", "enum", (("58", "bye\x01now"),), "alloc", 1, None, "head")
        yield ("D\x01", "str", (("58", "v1"),), "alloc", 1, None, "head")
        yield ("D", "enum", (("11", "v1"), ("58", "a\x01b")), "possdup", 1, 7, "split")
    elif klass == "noncanonical_tag_spelling":
        for tg in TAG_SPELLINGS:
            yield from at((tg, "x"))
        if "453" in TABLE.rg:
            for tg in (" 453", "+453", "0453"):   # a re-spelled count tag with items below it
                yield ("D", "enum", (("11", "v1"), (tg, ((("448", "p1"),),))), "alloc", 1, None, "head")
    elif klass == "empty_value":
        yield from at(("58", ""))
        yield from at(("5001", ""))
        yield ("D", "enum", (("58", ""), ("11", "")), "alloc", 1, None, "head")
        yield ("0", "enum", (("112", ""),), "alloc", 1, None, "head")
        yield ("D", "enum", (("11", "v1"), ("58", "")), "possdup", 1, 7, "split")
    elif klass == "empty_msgtype":
        yield ("", "str", (), "alloc", 1, None, "head")
        yield ("", "str", (("58", "v1"),), "alloc", 1, None, "head")
        yield ("", "str", (("11", "v1"), ("55", "v2")), "alloc", 10, None, "head")
    else:
        raise ValueError(klass)


def spec_of(body, t="D", tk="enum", mode="alloc", ctr=1, num=None, pos="head"):
    return (t, tk, fill(body), mode, ctr, num, pos)


# --------------------------------------------------------------------------
# units and their expansion
# --------------------------------------------------------------------------
def units(include_non_ascii=False, include_unrepresentable=False):
    tb = TABLE
    us = [("types",), ("modes",)]
    for k in range(1, CFG["flat_k"] + 1):
        us.append(("flat", k))
    gs = [g for g in tb.order if tb.usable(g)]
    for g in gs:
        n = _g1_parts(g)
        for p in range(n):
            us.append(("g1", g, p, n))
    for g in gs:
        us.append(("mixed", g))
    us.append(("val", "flat"))
    us.append(("val", "group"))
    for g in gs:
        us.append(("ctx", g))
    for g in gs:
        if tb.nested(g):
            us.append(("nested", g))
    for g in gs:
        us.append(("sib", g))
    for g in gs:
        us.append(("cross", g))
    for g in gs:
        if CFG["sib3_all"] or g not in tb.all_members:
            us.append(("sib3", g))
    for g in gs:
        n = max(1, (len(tb.rg[g]) * len(valm_atoms()) * 3) // 6000)
        for p in range(n):
            us.append(("valm", g, p, n))
    if include_non_ascii:
        us.append(("val8", "flat"))
        us.append(("val8", "group"))
        us.append(("hdr",))
    if include_unrepresentable:
        for k in UNREP_CLASSES:
            us.append(("unrep", k))
    return us


def skipped_definitions():
    return [g for g in TABLE.order if not TABLE.usable(g)]


def _g1_kmax(g, wide=True):
    if len(TABLE.rg[g]) <= 8:
        return CFG["subset_k_small"] if wide else 3
    if len(TABLE.rg[g]) <= 12 and wide:
        return CFG["subset_k"] + 1
    return CFG["subset_k"] if wide else 2


def _g1_parts(g):
    import math

    o = TABLE.plain_others(g)
    n = sum(math.comb(len(o), k) for k in range(0, min(_g1_kmax(g), len(o)) + 1))
    return max(1, n // 5000)


def valm_atoms():
    return list(CFG["valm_atoms"]) if CFG["valm_atoms"] is not None else atoms(CFG)


def _g1_bodies(g, part=0, nparts=1, wide=True):
    """Single group at top level. Subsets are dealt round-robin to the parts; the rest belongs to part 0."""
    o = TABLE.plain_others(g)
    ns = TABLE.nested(g)
    kmax = min(_g1_kmax(g, wide), len(o))
    for i, sub in enumerate(subsets(o, kmax)):
        if i % nparts == part:
            yield ((g, (make_item(g, sub),)),)
    if part != 0:
        return
    if kmax < len(o):
        yield ((g, (make_item(g, o),)),)
    if ns:
        mini = {n: (make_item(n),) for n in ns}
        yield ((g, (make_item(g, (), mini),)),)
        yield ((g, (make_item(g, o, mini),)),)
        maxi = {n: nested_instances(n, 1)[-1] for n in ns}
        yield ((g, (make_item(g, o, maxi),)),)
    for n in range(2, CFG["items_max"] + 1):
        for sub in reduced_family(g, CFG["mixed_family"]):
            yield ((g, (make_item(g, sub),) * n),)


def _mixed_bodies(g, maxlen=None):
    fam = [make_item(g, s) for s in reduced_family(g, CFG["mixed_family"])]
    for n in range(2, (maxlen or CFG["mixed_len"]) + 1):
        for tup in itertools.product(fam, repeat=n):
            if len(set(tup)) > 1:
                yield ((g, tup),)


def _nested_bodies(g):
    items = top_item_variants(g)
    for it in items:
        yield ((g, (it,)),)
    for it in items:
        yield ((g, (it, it)),)
    n = len(items)
    for i in range(n):
        yield ((g, (items[i], items[(i + 1) % n])),)
        yield ((g, (items[i], items[(i * 7 + 3) % n])),)
    for d in range(2, CFG["nest_pairs"] + 1):
        for i in range(n):
            yield ((g, (items[i], items[(i + d) % n])),)
    if CFG["nest_triples"]:
        for i in range(n):
            yield ((g, (items[i], items[(i + 1) % n], items[i])),)
            yield ((g, (items[i], items[i], items[(i + 5) % n])),)


def _ctx_bodies(g):
    nm = nonmember_tags()
    a, b, c = nm[0], nm[1], nm[2]
    fm = foreign_member(g)
    for inst in rep_instances(g, 5):
        grp = (g, inst)
        yield ((a, None), grp)
        yield (grp, (b, None))
        yield ((a, None), grp, (b, None))
        yield ((a, None), (c, None), grp, (b, None), ("5001", None))
        if fm:
            yield (grp, (fm, None))
            yield ((a, None), grp, (fm, None), (b, None))
    # a tag number that is a plain message-level field BEFORE the group and also a member inside its items
    # (ClOrdID before NoOrders, ExecID before NoExecs ...): both uses must survive
    plain = [t for t in TABLE.rg[g] if t not in TABLE.rg]
    for m in dict.fromkeys(plain[:1] + plain[1:2] + plain[-1:]):
        for inst in rep_instances(g, 5):
            yield ((m, None), (g, inst))
            yield ((a, None), (m, None), (g, inst), (b, None))


def _sib_bodies(g):
    tb = TABLE
    nm = nonmember_tags()
    cl = tb.closure(g)
    r = CFG["sib_r"]
    for h in tb.order:
        if h == g or not tb.usable(h) or h in cl:
            continue
        for i1 in rep_instances(g, r):
            for i2 in rep_instances(h, r):
                yield ((g, i1), (h, i2))
                yield ((nm[0], None), (g, i1), (h, i2), (nm[1], None))
                if r > 2:
                    yield ((g, i1), (nm[0], None), (h, i2))


def _sib3_bodies(g):
    """Three sibling groups at top level (quick: definitions that are never nested; minimal instances)."""
    tb = TABLE
    pool = [h for h in tb.order if tb.usable(h) and (CFG["sib3_all"] or h not in tb.all_members)]
    nm = nonmember_tags()
    r = 2 if CFG["sib3_all"] else 1
    for h in pool:
        if h == g or h in tb.closure(g):
            continue
        for k in pool:
            if k in (g, h) or k in tb.closure(h):
                continue
            for v in range(r):
                ig, ih, ik = (rep_instances(x, 2)[v if len(rep_instances(x, 2)) > v else 0] for x in (g, h, k))
                if v == 0:
                    yield ((g, ig), (h, ih), (k, ik))
                else:
                    yield ((nm[0], None), (g, ig), (h, ih), (k, ik), (nm[1], None))


VAL_TEMPLATES = {
    # name -> (body with "@k" slots, slots)
    "flat": (
        (("11", "@0"), ("55", "@1"), ("58", "@2")),
        3,
    ),
    "group": (
        (
            ("11", "@0"),
            ("453", (
                (("448", "@1"), ("447", None), ("452", None), ("802", ((("523", "@2"), ("803", None)),))),
                (("448", None), ("447", None), ("452", "@3"), ("802", ((("523", None), ("803", "@4")), (("523", "@5"),)))),
            )),
            ("58", "@6"),
        ),
        7,
    ),
    "group_last": (
        (
            ("55", None),
            ("453", (
                (("448", None), ("452", None)),
                (("448", "@0"),),
            )),
        ),
        1,
    ),
    "nested_last": (
        (
            ("453", (
                (("448", None), ("802", ((("523", None), ("803", "@0")),))),
            )),
        ),
        1,
    ),
}


def _subst(entries, slot, atom):
    out = []
    for e in entries:
        if is_group(e):
            out.append((e[0], tuple(_subst(it, slot, atom) for it in e[1])))
        elif isinstance(e[1], str) and e[1].startswith("@"):
            out.append((e[0], atom if e[1] == "@%d" % slot else None))
        else:
            out.append(e)
    return tuple(out)


def _template_ok(body):
    return well_formed(fill(body)) is None


def _val_bodies(kind, atom_list):
    names = ["flat"] if kind == "flat" else ["group", "group_last", "nested_last"]
    for name in names:
        tpl, nslots = VAL_TEMPLATES[name]
        if not _template_ok(_subst(tpl, -1, "x")):
            continue  # table changed so that the template is not well formed any more
        for a in atom_list:
            for s in range(nslots):
                yield _subst(tpl, s, a)
    if kind == "flat":
        # single field, and the same atom in two fields
        for a in atom_list:
            yield (("58", a),)
            yield (("5001", a),)
        for a in atom_list[:CFG["pair_atoms"]]:
            for b in atom_list[:CFG["pair_atoms"]]:
                yield (("11", a), ("58", b))


def _valm_bodies(g, atom_list, part=0, nparts=1):
    """Every atom in every plain member of g: single full item, last of two items, middle of three."""
    o = TABLE.plain_others(g)
    d = TABLE.rg[g][0]
    full1 = make_item(g, o)
    dd = make_item(g)
    nm = nonmember_tags()
    for i, m in enumerate([d] + o):
        if i % nparts != part:
            continue
        for a in atom_list:
            it = tuple((e[0], a) if e[0] == m else e for e in full1)
            yield ((g, (it,)),)
            yield ((g, (dd, it)), (nm[1], None))
            yield ((nm[0], None), (g, (full1, it, dd)))


def _cross_specs(g):
    """Group shapes x carried-number modes."""
    stride = CFG["cross_stride"]
    bodies = []
    for i, b in enumerate(itertools.chain(_g1_bodies(g, wide=False), _mixed_bodies(g, 3))):
        if i % stride == 0:
            bodies.append(b)
    if TABLE.nested(g):
        for i, b in enumerate(_nested_bodies(g)):
            if i % (stride * 3) == 0:
                bodies.append(b)
    for b in bodies:
        for mode, pos in CFG["cross_modes"]:
            yield spec_of(b, mode=mode, ctr=10, num=None if mode == "possdup_n" else 7, pos=pos)


def _mode_bodies():
    bodies = [
        (),
        (("58", None),),
        (("11", None), ("55", None), ("58", None)),
        (("55", None), ("454", ((("455", None), ("456", None)), (("455", None),))), ("58", None)),
    ]
    if "453" in TABLE.rg and TABLE.rg["453"][:1] == ["448"] and "802" in TABLE.rg["453"]:
        bodies.append(
            (("453", ((("448", None), ("802", ((("523", None),),))), (("448", None),))),)
        )
    return [b for b in bodies if well_formed(fill(b)) is None]


def _mode_specs():
    bodies = _mode_bodies()
    sr_bodies = [(), (("123", None), ("36", None)), (("36", None),)]
    for b in bodies:
        for c in COUNTERS:
            yield spec_of(b, ctr=c)
    for b in bodies:
        for c in (1, 10, 2 ** 31):
            for pos in ("head", "tail"):
                yield spec_of(b, mode="possdup_n", ctr=c, pos=pos)
                for n in CARRIED:
                    yield spec_of(b, mode="possdup_n_num", ctr=c, num=n, pos=pos)
    for b in bodies:
        for c in (1, 10):
            for pos in ("head", "tail"):
                yield spec_of(b, mode="forward", ctr=c, pos=pos)
    for b in bodies:
        for c in (1, 10):
            for n in CARRIED:
                for pos in ("head", "tail", "split"):
                    yield spec_of(b, mode="possdup", ctr=c, num=n, pos=pos)
                for t, tk in (("D", "enum"), ("0", "enum"), ("4", "enum"), ("U1", "str")):
                    for pos in ("head", "tail"):
                        yield spec_of(b, t=t, tk=tk, mode="raw", ctr=c, num=n, pos=pos)
    for b in sr_bodies:
        for c in (1, 10):
            for n in CARRIED:
                for tk in ("enum", "str"):
                    for pos in ("head", "tail"):
                        yield spec_of(b, t="4", tk=tk, mode="seqreset", ctr=c, num=n, pos=pos)
    for b in bodies[:3]:
        for c in (1, 10):
            yield spec_of(b, mode="err_possdup", ctr=c)
            yield spec_of(b, mode="err_possdup", ctr=c, pos="tail")
            yield spec_of(b, mode="err_raw", ctr=c)
    for b in sr_bodies:
        for c in (1, 10):
            for tk in ("enum", "str"):
                yield spec_of(b, t="4", tk=tk, mode="err_seqreset", ctr=c)


def _type_specs():
    std = msg_types()
    for body in ((), (("58", None),)):
        for t in std:
            if t == "4":
                yield spec_of(body + (("123", None), ("36", None)), t=t, mode="seqreset", num=7)
            else:
                yield spec_of(body, t=t)
        for t in CUSTOM_TYPES:
            if t not in std:
                yield spec_of(body, t=t, tk="str")
        for t in ("D", "0", "A", "8"):
            if t in std:
                yield spec_of(body, t=t, tk="str")


def expand(unit):
    """Yield the specs of one unit (simplest first)."""
    fam = unit[0]
    if fam == "types":
        yield from _type_specs()
    elif fam == "modes":
        yield from _mode_specs()
    elif fam == "flat":
        for tags in itertools.permutations(CFG["flat_pool"], unit[1]):
            yield spec_of(tuple((t, None) for t in tags))
    elif fam == "g1":
        for b in _g1_bodies(unit[1], unit[2], unit[3]):
            yield spec_of(b)
    elif fam == "mixed":
        for b in _mixed_bodies(unit[1]):
            yield spec_of(b)
    elif fam == "nested":
        for b in _nested_bodies(unit[1]):
            yield spec_of(b)
    elif fam == "ctx":
        for b in _ctx_bodies(unit[1]):
            yield spec_of(b)
    elif fam == "sib":
        for b in _sib_bodies(unit[1]):
            yield spec_of(b)
    elif fam == "sib3":
        for b in _sib3_bodies(unit[1]):
            yield spec_of(b)
    elif fam == "val":
        for b in _val_bodies(unit[1], atoms(CFG)):
            yield spec_of(b)
    elif fam == "val8":
        base = set(atoms(CFG))
        extra = [a for a in atoms(CFG, non_ascii=True) if a not in base]
        extra += [a for a in LATIN1_QUICK if a not in extra]
        for b in _val_bodies(unit[1], extra):
            yield spec_of(b)
    elif fam == "hdr":
        # C02 only (framing, not round trip): messages that carry standard header / trailer fields themselves
        for t in HDR_TRAILER_TAGS:
            for v in ("7", "x y"):
                yield spec_of(((t, v),))
                yield spec_of((("11", "v1"), (t, v), ("55", "v2")))
                yield spec_of((("58", "v1"), ("11", "v2"), (t, v)))
        yield spec_of((("11", "v1"), ("93", "3"), ("89", "sig")))
        yield spec_of((("93", "3"), ("89", "sig"), ("58", "v1")))
        yield spec_of((("212", "5"), ("213", "<a/> "), ("11", "v1")))
        yield spec_of((("11", "v1"), ("43", "N"), ("97", "Y"), ("122", "20240101-00:00:00")))
        yield spec_of((("11", "v1"), ("90", "3"), ("91", "abc"), ("347", "UTF-8")))
    elif fam == "unrep":
        for sp in _unrep_specs(unit[1]):
            if unrep_class(sp) == unit[1]:
                yield sp
    elif fam == "valm":
        for b in _valm_bodies(unit[1], valm_atoms(), unit[2], unit[3]):
            yield spec_of(b)
    elif fam == "cross":
        yield from _cross_specs(unit[1])
    else:
        raise ValueError(unit)
