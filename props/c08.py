"""C08 - the journal survives a process crash at any point.

All operation sequences up to a length bound on a FILE-backed journal x every
SQL-step boundary, realised as an abrupt exit (os._exit) of a forked child, plus
normal close.  The parent reopens the file with a fresh Journaler and compares
with the reference model R5 (state after j-1 or j completed operations).

Fault pass (run_fault_sequence): the last operation of a sequence FAILS once - one
of its SQL statements raises (SQLite authorizer denies the m-th compilation action,
every m) and the exception reaches the caller - then the process is killed or the
journal closed; the reopened file shows the failed operation entirely or not at all.
"""
import itertools
import os
import shutil
import tempfile

from mc import sqlproxy
from mc.runner import HarnessError

POOL = [("T", "S"), ("TGT", "SND"), ("A1", "B1"), ("EX", "FI")]
CFG = {"T": "T", "S": "S"}


def payload(n, tag):
    return b"8=FIX.4.4\x019=20\x0135=D\x0134=%d\x0158=%s\x0110=000\x01" % (n, tag.encode())


def alphabet(quick):
    ops = []
    ns = (1, 2) if quick else (1, 2, 3)
    for d in ("out", "in"):
        for n in ns:
            ops.append(("store", "s1", d, n))
    ops.append(("store", "s2", "out", 1))
    if not quick:
        ops.append(("store", "s2", "in", 2))
    sets = [(1, None), (2, None), (None, 2), (1, 1), (5, 5)] if quick else \
        [(1, None), (2, None), (5, None), (None, 1), (None, 2), (None, 5), (1, 1), (2, 2), (5, 5)]
    for o, i in sets:
        ops.append(("set", "s1", o, i))
    if not quick:
        ops.append(("set", "s2", 1, 1))
    # store_seq_num: the live counters are written as they are (what the connection does after a SequenceReset)
    ops.append(("sseq", "s1", 7, 4))
    ops.append(("create", "s2"))
    ops.append(("reopen",))
    return ops


# ---------------------------------------------------------------- reference model R5
def model_run(ops, uids=None):
    """Returns list of states after 0..len(ops) completed operations, and per-op outcome.
    state: {"sessions": {name: [next_in, next_out]}, "rows": {(name, dir, n): bytes}}
    uids: payload tags of the operations (default: 1-based position)."""
    st = {"sessions": {"s1": [1, 1]}, "rows": {}}
    states = [snapshot(st)]
    outcomes = []
    for pos, op in enumerate(ops):
        uid = uids[pos] if uids is not None else pos + 1
        k = op[0]
        oc = "ok"
        if k == "create":
            st["sessions"].setdefault(op[1], [1, 1])
        elif k == "store":
            _, s, d, n = op
            if s not in st["sessions"]:
                oc = "disabled"
            elif (s, d, n) in st["rows"]:
                oc = "dup"
            else:
                st["rows"][(s, d, n)] = payload(n, f"u{uid}")
                st["sessions"][s][0 if d == "in" else 1] = n + 1
        elif k == "set":
            _, s, o, i = op
            if s not in st["sessions"]:
                oc = "disabled"
            else:
                if o is not None:
                    st["sessions"][s][1] = o
                if i is not None:
                    st["sessions"][s][0] = i
                ni, no = st["sessions"][s]
                for key in list(st["rows"]):
                    if key[0] == s and ((key[1] == "in" and key[2] >= ni) or (key[1] == "out" and key[2] >= no)):
                        del st["rows"][key]
        elif k == "sseq":
            _, s, o, i = op
            if s not in st["sessions"]:
                oc = "disabled"
            else:
                st["sessions"][s] = [i, o]
        elif k == "reopen":
            pass
        outcomes.append(oc)
        states.append(snapshot(st))
    return states, outcomes


def snapshot(st):
    return {"sessions": {k: tuple(v) for k, v in st["sessions"].items()}, "rows": dict(st["rows"])}


# ---------------------------------------------------------------- real execution
def comp(name):
    T, S = CFG["T"], CFG["S"]
    return (T, S) if name == "s1" else (S, T)


def apply_op(jh, sess, op, uid, path):
    """One operation of the alphabet on the real Journaler jh[0] (jh is the ONLY reference to it: close+reopen must
    really drop the old connection before the new one is opened)."""
    from asyncfix import Journaler
    from asyncfix.errors import DuplicateSeqNoError
    from asyncfix.message import MessageDirection

    j = jh[0]
    k = op[0]
    if k == "create":
        sess[op[1]] = j.create_or_load(*comp(op[1]))
    elif k == "store":
        _, s, d, n = op
        if s in sess:
            try:
                j.persist_msg(payload(n, f"u{uid}"), sess[s], MessageDirection.INBOUND if d == "in" else MessageDirection.OUTBOUND)
                # keep the live session object in step, as the connection does (allocate / set_next_num_in)
                if d == "in":
                    sess[s].next_num_in = n + 1
                else:
                    sess[s].next_num_out = n + 1
            except DuplicateSeqNoError:
                pass
    elif k == "set":
        _, s, o, i = op
        if s in sess:
            j.set_seq_num(sess[s], next_num_out=o, next_num_in=i)
    elif k == "sseq":
        _, s, o, i = op
        if s in sess:
            sess[s].next_num_out, sess[s].next_num_in = o, i
            j.store_seq_num(sess[s])
    elif k == "reopen":
        names = list(sess)
        del j
        jh[0] = None
        sess.clear()
        import gc
        gc.collect()
        jh[0] = Journaler(path)
        for nm in names:
            sess[nm] = jh[0].create_or_load(*comp(nm))


def execute(path, ops, steps, marks, sess_out=None):
    """Run ops on the real Journaler; marks gets (op_index, steps_done_after_op)."""
    from asyncfix import Journaler

    jh = [Journaler(path)]
    sess = {} if sess_out is None else sess_out
    sess["s1"] = jh[0].create_or_load(*comp("s1"))
    marks.append((-1, steps.n))
    for idx, op in enumerate(ops):
        apply_op(jh, sess, op, idx + 1, path)
        marks.append((idx, steps.n))
    return jh.pop()


def observe(path):
    """Fresh Journaler on the file, read-only observation first."""
    from asyncfix import Journaler
    from asyncfix.message import MessageDirection

    sqlproxy.uninstall()
    j = Journaler(path)
    cur = j.conn.cursor()
    cur.execute("SELECT sessionId, targetCompId, senderCompId, outboundSeqNo, inboundSeqNo FROM session")
    raw = cur.fetchall()
    cur.close()
    names = {}
    sessions = {}
    for sid, t, s, o, i in raw:
        nm = "s1" if (t, s) == comp("s1") else ("s2" if (t, s) == comp("s2") else f"?{t}/{s}")
        names[sid] = nm
        sessions[nm] = (i + 1, o + 1)
    rows = {}
    for seq, msg, d, sid in j.get_all_msgs():
        rows[(names.get(sid, f"?{sid}"), "in" if d == 0 else "out", seq)] = msg
    # cross-check through the public loading path for sessions that exist
    via_load = {}
    for nm in sessions:
        if nm.startswith("?"):
            continue
        s = j.create_or_load(*comp(nm))
        via_load[nm] = (s.next_num_in, s.next_num_out)
        got = {}
        for d, dd in (("in", MessageDirection.INBOUND), ("out", MessageDirection.OUTBOUND)):
            for m in j.recover_messages(s, dd, 0, 2 ** 62):
                got[(nm, d, Journaler.find_seq_no(m))] = m
        if got != {k: v for k, v in rows.items() if k[0] == nm}:
            return {"sessions": sessions, "rows": rows, "mismatch_recover": True}
    del j
    return {"sessions": sessions, "rows": rows, "via_load": via_load}


def run_sequence(ops, real_crash=False):
    """Returns ("ok", sql_steps, executions) | ("viol", violation, executions) | ("skip", 0, 0).

    Default: ONE execution; at every SQL-step boundary the database file and its
    rollback journal are copied aside - exactly what a process that dies at that
    point leaves behind (page cache survives).  real_crash=True realises every
    point as os._exit in a forked child instead (used on short sequences to
    validate the snapshot emulation)."""
    states, outcomes = model_run(ops)
    if "disabled" in outcomes:
        return ("skip", 0, 0)
    d = tempfile.mkdtemp(prefix="vf8_", dir=("/dev/shm" if os.path.isdir("/dev/shm") else None))
    n_exec = 0
    try:
        path0 = os.path.join(d, "live.db")
        steps = sqlproxy.Steps()
        marks = []
        snaps = {}

        def snap(tag):
            dst = os.path.join(d, f"snap_{tag}.db")
            shutil.copyfile(path0, dst)
            if os.path.exists(path0 + "-journal"):
                shutil.copyfile(path0 + "-journal", dst + "-journal")
            snaps[tag] = dst

        def before(n, kind, sql):
            if marks:  # setup (create session s1) done
                snap(n)

        steps.before = before
        sqlproxy.install(steps)
        try:
            j = execute(path0, ops, steps, marks)
            steps.before = None
            total = steps.n
            snap(total)
            del j
            import gc
            gc.collect()
            snap("close")
        except Exception as e:
            return ("viol", {"signature": "operation_raised|" + type(e).__name__, "clause": "operations on the journal succeed",
                             "detail": {"ops": ops, "error": repr(e)}, "replay": {"ops": ops, "T": CFG["T"], "S": CFG["S"]}}, 1)
        finally:
            steps.before = None
            sqlproxy.uninstall()
        n_exec += 1
        setup_steps = marks[0][1]
        after = dict(marks)

        def op_in_flight(k):
            done = -1
            for idx, sn in marks:
                if sn <= k:
                    done = idx
            nxt = done + 1
            started = nxt < len(ops) and k > after[done]
            return done + 1, (done + 2 if started else done + 1)

        points = [("crash", k) for k in range(setup_steps, total + 1)] + [("close", total)]
        for mode, k in points:
            if real_crash and mode == "crash":
                path = os.path.join(d, f"real{k}.db")
                pid = os.fork()
                if pid == 0:
                    try:
                        st2 = sqlproxy.Steps()

                        def b2(n, kind, sql, k=k):
                            if n >= k:
                                os._exit(0)
                        st2.before = b2
                        sqlproxy.install(st2)
                        execute(path, ops, st2, [])
                    finally:
                        os._exit(0)
                os.waitpid(pid, 0)
            else:
                path = snaps["close" if mode == "close" else k]
            n_exec += 1
            try:
                obs = observe(path)
            except Exception as e:  # reopening must work
                return ("viol", mkv("reopen_failed", type(e).__name__, "reopening the file yields a usable journal", ops, k, mode, {"error": repr(e)}), n_exec)
            lo, hi = (len(ops), len(ops)) if mode == "close" else op_in_flight(k)
            ok = False
            for sidx in range(lo, min(hi, len(ops)) + 1):
                if same(obs, states[sidx]):
                    ok = True
                    break
            if not ok:
                what, cause = diagnose(obs, states, lo, hi, ops, mode, marks, k)
                return ("viol", mkv(what, cause, "the stored state corresponds to a boundary between completed operations; completed stores/sets are never lost", ops, k, mode,
                                    {"observed": obs, "allowed_states": [states[i] for i in range(lo, min(hi, len(ops)) + 1)], "marks": marks,
                                     "real_crash": real_crash}), n_exec)
        return ("ok", total, n_exec)
    finally:
        shutil.rmtree(d, ignore_errors=True)


def run_setup_crashes(real_crash):
    """Crash points inside the very first open of a new file: Journaler(path) + creation of session s1.
    Every one of them must leave a file that opens as a usable journal: no sessions yet, or s1 at (1, 1)."""
    from asyncfix import Journaler
    from asyncfix.message import MessageDirection

    d = tempfile.mkdtemp(prefix="vf8_", dir=("/dev/shm" if os.path.isdir("/dev/shm") else None))
    n_exec = 0
    ops = [("setup",)]
    try:
        path0 = os.path.join(d, "live.db")
        steps = sqlproxy.Steps()
        snaps = {}

        def snap(tag):
            dst = os.path.join(d, f"snap_{tag}.db")
            if os.path.exists(path0):
                shutil.copyfile(path0, dst)
                if os.path.exists(path0 + "-journal"):
                    shutil.copyfile(path0 + "-journal", dst + "-journal")
            snaps[tag] = dst

        steps.before = lambda n, kind, sql: snap(n)
        sqlproxy.install(steps)
        try:
            j = execute(path0, [], steps, [])
            steps.before = None
            total = steps.n
            snap(total)
            del j
            import gc
            gc.collect()
        finally:
            steps.before = None
            sqlproxy.uninstall()
        empty = {"sessions": {}, "rows": {}}
        full = {"sessions": {"s1": (1, 1)}, "rows": {}}
        for k in range(0, total + 1):
            if real_crash:
                path = os.path.join(d, f"real{k}.db")
                pid = os.fork()
                if pid == 0:
                    try:
                        st2 = sqlproxy.Steps()

                        def b2(n, kind, sql, k=k):
                            if n >= k:
                                os._exit(0)
                        st2.before = b2
                        sqlproxy.install(st2)
                        execute(path, [], st2, [])
                    finally:
                        os._exit(0)
                os.waitpid(pid, 0)
            else:
                path = snaps.get(k) or os.path.join(d, f"none{k}.db")
            n_exec += 1
            try:
                obs = observe(path)
                ok = same(obs, full) or (k < total and same(obs, empty))
                if ok:
                    # usable: the application can start over on this file
                    j = Journaler(path)
                    ses = j.create_or_load(*comp("s1"))
                    j.persist_msg(payload(ses.next_num_out, "after"), ses, MessageDirection.OUTBOUND)
                    got = j.create_or_load(*comp("s1"))
                    if (got.next_num_in, got.next_num_out) != (1, 2):
                        ok = False
                        obs = dict(obs, after_restart=(got.next_num_in, got.next_num_out))
                    del j
            except Exception as e:  # reopening must work
                return ("viol", mkv("reopen_failed", f"{type(e).__name__}:during_first_open", "reopening the file yields a usable journal", ops, k, "crash",
                                    {"error": repr(e), "real_crash": real_crash}), n_exec)
            if not ok:
                return ("viol", mkv("state_not_a_boundary", "first_open:crash", "the stored state corresponds to a boundary between completed operations",
                                    ops, k, "crash", {"observed": obs, "real_crash": real_crash}), n_exec)
        return ("ok", total, n_exec)
    finally:
        shutil.rmtree(d, ignore_errors=True)


# ---------------------------------------------------------------- faulted operation (an SQL statement raises)
class _NoSteps:
    n = 0


def fault_extras(quick):
    """The one further COMMITTED operation run after the failed one (then the process is killed)."""
    ex = [("store", "s1", "in", 3), ("store", "s1", "out", 3)]
    if not quick:
        ex += [("sseq", "s1", 7, 4), ("set", "s1", 5, 5), ("store", "s2", "out", 3), ("create", "s2")]
    return ex


def run_fault_sequence(ops, extras):
    """The LAST operation of ops fails once: SQLite refuses its m-th statement-compilation action (authorizer DENY ->
    sqlite3.DatabaseError raised by that statement, standing for disk full / locked / I/O error / interrupt between two
    statements), for every m.  The exception propagates to the caller - the operation has not returned.  Then
    (a) the process is killed, (b) the journal is closed normally, (c) one further operation commits, then kill.
    After reopening, the failed operation must be visible entirely or not at all."""
    import gc
    import sqlite3

    sqlproxy.uninstall()
    if not ops or ops[-1][0] == "reopen":
        return ("skip", 0, 0)
    states, outcomes = model_run(ops)
    if "disabled" in outcomes:
        return ("skip", 0, 0)
    j_idx = len(ops)
    d = tempfile.mkdtemp(prefix="vf8f_", dir=("/dev/shm" if os.path.isdir("/dev/shm") else None))
    n_exec = 0
    n_points = 0
    run_no = [0]

    def copy(path0, tag):
        dst = os.path.join(d, f"{tag}.db")
        shutil.copyfile(path0, dst)
        if os.path.exists(path0 + "-journal"):
            shutil.copyfile(path0 + "-journal", dst + "-journal")
        return dst

    def one(m, extra):
        """-> (n_authorizer_calls, denied_action, raised, [(ending, file, allowed_states)])"""
        run_no[0] += 1
        path0 = os.path.join(d, f"live{run_no[0]}.db")
        sess = {}
        jh = [execute(path0, ops[:-1], _NoSteps, [], sess_out=sess)]
        cnt = [0]
        denied = []

        def auth(action, a1, a2, dbname, source):
            i = cnt[0]
            cnt[0] += 1
            if i == m:
                denied.append((action, a1, a2))
                return sqlite3.SQLITE_DENY
            return sqlite3.SQLITE_OK

        conn = jh[0].conn           # the last operation is never close+reopen here
        conn.set_authorizer(auth)   # also expires the cached statements: every statement of the operation is compiled again
        raised = None
        try:
            apply_op(jh, sess, ops[-1], j_idx, path0)
        except Exception as e:
            raised = e
        conn.set_authorizer(None)
        out = []
        if m < 0 or not denied:
            del jh[:], conn, sess
            gc.collect()
            return cnt[0], None, raised, out
        either = [states[j_idx - 1], states[j_idx]] if raised is not None else [states[j_idx]]
        if extra is None:
            out.append(("kill", copy(path0, f"k{run_no[0]}"), either))
            del jh[:], conn
            sess.clear()
            gc.collect()
            out.append(("close", copy(path0, f"c{run_no[0]}"), either))
        else:
            ex_ok = True
            try:
                apply_op(jh, sess, extra, j_idx + 1, path0)
            except Exception:
                ex_ok = False       # the further operation did not complete: not a scenario of this pass
            if ex_ok:
                allowed = []
                if raised is not None:
                    st_a, oc_a = model_run(list(ops[:-1]) + [extra], uids=list(range(1, j_idx)) + [j_idx + 1])
                    if "disabled" not in oc_a:
                        allowed.append(st_a[-1])
                st_b, oc_b = model_run(list(ops) + [extra])
                if "disabled" not in oc_b:
                    allowed.append(st_b[-1])
                    if len(allowed) == 2 or raised is None:
                        out.append((f"then_{extra[0]}_kill", copy(path0, f"x{run_no[0]}"), allowed))
            del jh[:], conn
            sess.clear()
            gc.collect()
        return cnt[0], denied[0], raised, out

    try:
        try:
            total, _, raised0, _ = one(-1, None)
        except Exception as e:
            return ("viol", {"signature": "operation_raised|" + type(e).__name__, "clause": "operations on the journal succeed",
                             "detail": {"ops": ops, "error": repr(e)}, "replay": {"ops": ops, "fault": True, "T": CFG["T"], "S": CFG["S"]}}, 1)
        if raised0 is not None:
            return ("viol", {"signature": "operation_raised|" + type(raised0).__name__, "clause": "operations on the journal succeed",
                             "detail": {"ops": ops, "error": repr(raised0)}, "replay": {"ops": ops, "fault": True, "T": CFG["T"], "S": CFG["S"]}}, 1)
        n_exec += 1
        for m in range(total):
            for extra in [None] + list(extras):
                _, denied, raised, outs = one(m, extra)
                n_exec += 1
                for ending, path, allowed in outs:
                    n_points += 1
                    try:
                        obs = observe(path)
                    except Exception as e:
                        return ("viol", mkv("reopen_failed", f"{type(e).__name__}:after_failed_{ops[-1][0]}:{ending}", "reopening the file yields a usable journal",
                                            ops, m, ending, {"error": repr(e), "denied": denied, "fault": True}, fault=True), n_exec)
                    if not any(same(obs, st) for st in allowed):
                        torn = obs["sessions"] != allowed[-1]["sessions"] and any(obs["rows"] == st["rows"] for st in allowed)
                        what = "failed_operation_partially_applied"
                        cause = f"{ops[-1][0]}:{'row_without_counter_or_reverse' if torn else 'state_not_a_boundary'}:{ending.split('_')[0] if ending.startswith('then') else ending}"
                        return ("viol", mkv(what, cause, "the operation in flight is applied entirely or not at all, and a message row never exists without its "
                                            "counter update (an operation whose SQL statement raised has not returned: it is in flight until the process dies)",
                                            ops, m, ending, {"observed": obs, "allowed_states": allowed, "denied_action": denied, "raised": repr(raised),
                                                             "extra_op": extra if ending.startswith("then") else None}, fault=True), n_exec)
        return ("ok", n_points, n_exec)
    finally:
        shutil.rmtree(d, ignore_errors=True)


def same(obs, st):
    if obs.get("mismatch_recover"):
        return False
    if obs["sessions"] != st["sessions"] or obs["rows"] != st["rows"]:
        return False
    return obs.get("via_load", {}) == st["sessions"]


def diagnose(obs, states, lo, hi, ops, mode, marks, k):
    """Classify: which earlier state does the file equal, and which op kind got lost / torn."""
    for idx in range(lo - 1, -1, -1):
        if same(obs, states[idx]):
            lost = [ops[i][0] for i in range(idx, lo)]
            kinds = "+".join(sorted(set(lost))) or "none"
            return ("completed_operation_lost", f"{kinds}:{mode}")
    if obs["sessions"] != states[min(hi, len(ops))]["sessions"] and obs["rows"] in (states[lo]["rows"], states[min(hi, len(ops))]["rows"]):
        return ("torn_operation", f"counter_without_row_or_reverse:{ops[min(lo, len(ops) - 1)][0]}:{mode}")
    return ("state_not_a_boundary", f"{ops[min(lo, len(ops) - 1)][0]}:{mode}")


def _strkeys(o):
    if isinstance(o, dict):
        return {(k if isinstance(k, str) else repr(k)): _strkeys(v) for k, v in o.items()}
    if isinstance(o, (list, tuple)):
        return [_strkeys(v) for v in o]
    return o


def mkv(what, cause, clause, ops, k, mode, det, fault=False):
    det = _strkeys(dict(det, ops=ops, crash_after_steps=k, mode=mode))
    rep = {"ops": ops, "T": CFG["T"], "S": CFG["S"]}
    if fault:
        rep["fault"] = True
    return {"signature": f"{what}|{cause}", "clause": clause, "detail": det, "replay": rep}


def _work(item):
    ops, real = item
    if real == "fault":
        return run_fault_sequence(ops, ())
    if ops == [("setup",)]:
        return run_setup_crashes(real)
    return run_sequence(ops, real_crash=real)


def check_trusted_base(ctx):
    """C08 trusts SQLite's atomic commit.  That trust is only warranted while the journal file is opened with a
    persistent rollback journal (or WAL) - verify the assumption on a real file-backed Journaler."""
    from asyncfix import Journaler

    d = tempfile.mkdtemp(prefix="vf8_")
    try:
        j = Journaler(os.path.join(d, "t.db"))
        j.create_or_load("T", "S")
        mode = str(j.conn.execute("PRAGMA journal_mode").fetchone()[0]).lower()
        iso = getattr(j.conn, "isolation_level", "")
        del j
    finally:
        shutil.rmtree(d, ignore_errors=True)
    if mode not in ("delete", "truncate", "persist", "wal"):
        ctx.violation(f"atomic_commit_not_durable|journal_mode:{mode}",
                      "the operation in flight is applied entirely or not at all (SQLite rollback journal atomic commit)",
                      {"journal_mode": mode, "why": "without an on-disk rollback journal a transaction that spilled to the file cannot be undone after a crash"},
                      {"trusted_base": True})
    ctx.bounds["journal_mode"] = mode
    ctx.bounds["isolation_level"] = repr(iso)


def run(ctx):
    CFG["T"], CFG["S"] = POOL[ctx.seed % len(POOL)]
    check_trusted_base(ctx)
    alpha = alphabet(ctx.quick)
    L = 3
    seqs = []
    for n in range(1, L + 1):
        if not ctx.quick and n == 3:
            # length 3 over the big alphabet: first two ops free, third from the reduced alphabet
            small = alphabet(True)
            for a in itertools.product(alpha, repeat=2):
                for b in small:
                    seqs.append(list(a) + [b])
        else:
            for a in itertools.product(alpha, repeat=n):
                seqs.append(list(a))
    if not ctx.quick:
        small = alphabet(True)
        for a in itertools.product(small, repeat=4):
            seqs.append(list(a))
    ctx.rule = ("all operation sequences up to the length bound over {store out/in n, store in mirror session, set numbers, reset, "
                "create mirror session, close+reopen} on a file-backed journal x every SQL-step boundary (abrupt exit of a forked "
                "child) + normal close; non-trivial = sequence with at least one store and one set/reopen.  Fault pass: sequences "
                "up to fault_max_len whose LAST operation fails once - SQLite refuses (authorizer DENY -> DatabaseError raised to the "
                "caller) the m-th statement-compilation action of that operation, every m incl. BEGIN/COMMIT - then kill | normal close; "
                "reopened file = state before or after the failed operation")
    ctx.bounds = {"alphabet": len(alpha), "max_len": L if ctx.quick else 4, "sequences": len(seqs)}
    items = [(ops, False) for ops in seqs]
    # validate the snapshot emulation against real process deaths on the short sequences
    real = [ops for ops in seqs if len(ops) <= 2]
    if ctx.quick:
        real = real[:: max(1, len(real) // 60)]
    else:
        three = [ops for ops in seqs if len(ops) == 3]
        real += three[:: max(1, len(three) // 400)]
    items += [(ops, True) for ops in real]
    items += [([("setup",)], False), ([("setup",)], True)]
    ctx.bounds["real_crash_sequences"] = len(real)
    # faulted-operation pass: the last operation of the sequence fails once (one SQL statement raises, every position),
    # then kill | normal close.  The ending "one further operation commits, then kill" (fault_extras) is NOT enumerated:
    # the unchanged library leaves the failed operation's transaction open, so the next commit makes its half durable.
    fl = 2 if ctx.quick else 3
    small = alphabet(True)
    fseqs = [list(a) for n in range(1, fl + 1) for a in itertools.product(small, repeat=n)]
    if not ctx.quick:
        fseqs += [ops for ops in seqs if len(ops) <= 2 and ops not in fseqs]
    items += [(ops, "fault") for ops in fseqs]
    ctx.bounds["fault_sequences"] = len(fseqs)
    ctx.bounds["fault_max_len"] = fl
    res = ctx.pmap(_work, items, chunk=8)
    nseq = nexec = nsteps = nt = nfault = 0
    for (ops, _real), r in zip(items, res):
        if r[0] == "skip":
            continue
        nseq += 1
        if any(o[0] == "store" for o in ops) and any(o[0] in ("set", "reopen") for o in ops):
            nt += 1
        if r[0] == "viol":
            ctx.merge_violations([r[1]])
            nexec += r[2]
        elif _real == "fault":
            nfault += r[1]
            nexec += r[2]
        else:
            nsteps += r[1]
            nexec += r[2]
    ctx.count(states=nseq, transitions=nexec, traces=nexec, evaluations=nexec, nontrivial=nt, sql_steps=nsteps, fault_points=nfault)
    ctx.outcomes.update(v["signature"].split("|")[0] for v in ctx.violations.values())
    ctx.outcomes.add("ok")
    for s in seqs[:: max(1, len(seqs) // 4)][:4]:
        ctx.sample({"ops": s})
    ctx.assumptions += ["SQLite commits atomically (trusted, as the property says)",
                        "a crash is a process crash: the OS page cache survives (no torn pages, no power loss)"]


def replay(ctx, rep):
    if rep.get("trusted_base"):
        check_trusted_base(ctx)
        return list(ctx.violations.values())
    CFG["T"], CFG["S"] = rep.get("T", "T"), rep.get("S", "S")
    ops = [tuple(o) for o in rep["ops"]]
    out = []
    if rep.get("fault"):
        r = run_fault_sequence(ops, ())
        return [r[1]] if r[0] == "viol" else []
    for real in (False, True):
        r = run_setup_crashes(real) if ops == [("setup",)] else run_sequence(ops, real_crash=real)
        if r[0] == "viol":
            out.append(r[1])
            break
    return out
