"""C20 helper: independent reading of a QuickFIX-style dictionary (R10-lite).

Reads the XML with xml.etree only; shares no code with asyncfix.protocol.schema.
Used as a second, conservative opinion next to FIXSchema.validate: it only
judges what the dictionary states unambiguously for a *flat* message
(required top-level fields, fields that are not members of the message at all,
enumerated values, number / char / boolean lexical form). Everything else is
"unconstrained" (returns no complaint).
"""
import re
import xml.etree.ElementTree as ET

INT_RE = re.compile(r"^-?\d+$")
DEC_RE = re.compile(r"^-?(\d+(\.\d*)?|\.\d+)$")
INT_TYPES = {"INT", "LENGTH", "SEQNUM", "NUMINGROUP"}
POS_TYPES = {"SEQNUM", "NUMINGROUP"}
DEC_TYPES = {"FLOAT", "QTY", "PRICE", "PRICEOFFSET", "AMT", "PERCENTAGE"}


class RefDict:
    def __init__(self, path):
        root = ET.parse(path).getroot()
        self.by_name = {}
        self.by_tag = {}
        for f in root.find("fields"):
            rec = {
                "tag": f.attrib["number"],
                "name": f.attrib["name"],
                "type": f.attrib["type"].upper(),
                "enum": {v.attrib["enum"] for v in f if v.tag == "value"},
            }
            self.by_name[rec["name"]] = rec
            self.by_tag[rec["tag"]] = rec
        self.components = {c.attrib["name"]: c for c in root.find("components")}
        self.envelope = set()
        for part in ("header", "trailer"):
            self.envelope |= self._members(root.find(part), set())[0]
        self.messages = {}
        for m in root.find("messages"):
            allowed, required = self._members(m, set())
            self.messages[m.attrib["msgtype"]] = {
                "name": m.attrib["name"],
                "allowed": allowed,
                "required": required,
            }

    def _members(self, el, stack, req_ctx=True):
        """(all member tags incl. nested groups/components, tags required at top level)."""
        allowed, required = set(), set()
        for c in el:
            req = req_ctx and c.attrib.get("required", "N").upper() == "Y"
            if c.tag == "field":
                t = self.by_name[c.attrib["name"]]["tag"]
                allowed.add(t)
                if req:
                    required.add(t)
            elif c.tag == "group":
                t = self.by_name[c.attrib["name"]]["tag"]
                allowed.add(t)
                if req:
                    required.add(t)
                a, _ = self._members(c, stack, False)
                allowed |= a
            elif c.tag == "component":
                name = c.attrib["name"]
                if name in stack:
                    continue
                a, r = self._members(self.components[name], stack | {name}, req)
                allowed |= a
                required |= r
        return allowed, required

    def complaints(self, msg_type, tags):
        """tags: dict tag(str) -> value(str) of a flat message. Returns list of
        (reason_class, tag) - empty when nothing the dictionary forbids was found."""
        out = []
        m = self.messages.get(str(msg_type))
        if m is None:
            return [("unknown_msgtype", str(msg_type))]
        for t in sorted(m["required"], key=int):
            if t not in tags:
                out.append(("missing_required", t))
        for t, v in tags.items():
            if t == "35":
                continue
            f = self.by_tag.get(t)
            if f is None:
                out.append(("unknown_tag", t))
                continue
            if t not in m["allowed"] and t not in self.envelope:
                out.append(("not_a_member", t))
                continue
            if not isinstance(v, str):
                continue  # groups: unconstrained here
            if v == "":
                out.append(("empty_value", t))
                continue
            if "\x01" in v:
                out.append(("soh_in_value", t))
                continue
            if f["enum"]:
                if v not in f["enum"]:
                    out.append(("not_in_enum", t))
                continue
            ty = f["type"]
            if ty in INT_TYPES:
                if not INT_RE.match(v):
                    out.append(("not_an_integer", t))
                elif ty in POS_TYPES and int(v) <= 0 and t != "16":
                    out.append(("not_positive", t))
            elif ty in DEC_TYPES:
                if not DEC_RE.match(v):
                    out.append(("not_a_decimal", t))
            elif ty == "CHAR":
                if len(v) != 1:
                    out.append(("not_a_char", t))
            elif ty == "BOOLEAN":
                if v not in ("Y", "N"):
                    out.append(("not_a_boolean", t))
        return out
