"""C06 - a ResendRequest is answered completely, in order and without side effects.

Product enumeration on the real endpoint: journals built by REAL sends
(slot kinds) x all (BeginSeqNo, EndSeqNo) pairs x receiver state, plus a second
request after the first.  Oracle R4 uses the ground-truth send history recorded
by the harness, not the journal.
"""
import itertools

from mc import refs
from mc.world import session_of, World1, num_in, num_out, stored_counters, journal_rows

POOL = [("SRV", "CLI"), ("ACC", "INI"), ("S1", "T1"), ("EXCH", "FIRM")]
CFG = {"S": "SRV", "T": "CLI"}

SLOTS_Q = ("app", "dec", "hb", "hole", "failed", "pdn", "relog", "grp")
SLOTS_T = ("app", "dec", "hb", "hole", "failed", "pdn", "relog", "grp", "tr")


def _mk(kind, uid):
    from asyncfix import FIXMessage, FMsg, FTag

    if kind in ("app", "hole", "failed"):
        return FIXMessage("D", {11: f"ord{uid}", 55: "X", 58: "a=b"})
    if kind == "pdn":
        # application message that spells out PossDupFlag=N
        return FIXMessage("D", {11: f"pdn{uid}", 55: "X", FTag.PossDupFlag: "N"})
    if kind == "dec":
        return FIXMessage("D", {11: f"dec{uid}", 55: "X"})
    if kind == "grp":
        return FIXMessage("8", {11: f"grp{uid}", 453: [{448: "p1", 447: "D", 452: 1}, {448: "p2", 447: "D", 452: 3}], 55: "Y"})
    if kind == "ugrp":
        # legal FIX 4.4 application message whose repeating groups are NOT in the library's group table
        # (MarketDataRequest: NoMDEntryTypes 267, NoRelatedSym 146)
        return FIXMessage("V", {262: f"md{uid}", 263: "1", 264: "0", 267: [{269: "0"}, {269: "1"}], 146: [{55: "X"}]})
    if kind == "ngrp":
        # legal nesting the library's table does not know: NoPositions(702) items with NestedParties(539) inside
        return FIXMessage("AL", {710: f"pm{uid}", 709: "1", 715: "20240101", 702: [
            {703: "TQ", 704: "10", 539: [{524: "p1", 525: "D", 538: "1"}]},
            {703: "TA", 704: "5", 539: [{524: "p2", 525: "D", 538: "2"}]}]})
    if kind == "egrp":
        return FIXMessage("D", {11: f"eg{uid}", 55: "X", 453: []})  # a group sent with zero items (453=0)
    if kind == "u8":
        # non-ASCII text (utf-8 on the wire): sizes in characters and in bytes differ in the journaled copy
        return FIXMessage("D", {11: f"u8{uid}", 55: "X", 58: "Z\u00fcrich \u6771\u4eac", 453: [{448: "\u00e9", 447: "D"}]})
    if kind == "boom":
        return FIXMessage("D", {11: f"boom{uid}", 55: "X"})
    if kind == "hb":
        return FIXMessage(FMsg.HEARTBEAT)
    raise ValueError(kind)


def run_case(case):
    """case = (role, slots, awaiting, reqs)  reqs = [(begin, end), ...]"""
    role, slots, awaiting, reqs = case[:4]
    concurrent = len(case) > 4 and case[4]
    w = World1(role, S=CFG["S"], T=CFG["T"])
    try:
        c = w.c
        def _filter(m):
            if str(m.get(11, "")).startswith("boom"):
                raise RuntimeError("application should_replay callback failed")  # counts as "does not agree to replay"
            return not str(m.get(11, "")).startswith("dec")
        c.replay_filter = _filter
        # the journal is shared with another session whose outbound history overlaps in numbers
        from asyncfix.message import MessageDirection
        foreign = w.j.create_or_load("OTHER_T", "OTHER_S")
        for n in range(1, 9):
            w.j.persist_msg(refs.frame("D", n, "OTHER_S", "OTHER_T", [(11, f"foreign{n}"), (55, "F")]), foreign, MessageDirection.OUTBOUND)
        w.connect()
        w.logon()
        truth = {}  # n -> dict(kind, bytes, fields)
        def note_written(kind_of_new):
            for b in w.take():
                f, err = refs.try_parse(b)
                if f is None:
                    return ("harness", "unparseable frame from endpoint during setup")
                d = refs.fdict(f)
                truth[int(d["34"])] = {"kind": kind_of_new if d["35"] not in ("A", "2", "5") else "session", "bytes": b, "f": f, "d": d}
            return None
        note_written("session")
        uid = 0
        for k in slots:
            uid += 1
            w.advance(1.0)
            n_before = num_out(c)
            if k == "failed":
                # a send whose transport write fails: the number is consumed; whether the message counts as
                # sent-and-journaled is decided by the journal (ground truth for "journaled application message")
                w.writer.fail()
                r = w.send(_mk(k, uid))
                w.writer.broken = None
                if num_out(c) != n_before + 1:
                    return None  # the send did not consume a number: skip shape
                row = {seq: m for (k_, d, seq, m) in journal_rows(w.j) if d == 1 and k_ == session_of(c).key}.get(n_before)
                if row is None:
                    truth[n_before] = {"kind": "hole"}
                else:
                    f, err = refs.try_parse(row)
                    if f is None:
                        return None
                    truth[n_before] = {"kind": "app", "bytes": row, "f": f, "d": refs.fdict(f)}
            elif k == "hole":
                # a message that was sent but is missing from the journal (lost / pruned row)
                w.send(_mk(k, uid))
                note_written("app")
                w.j.conn.execute("DELETE FROM message WHERE seqNo = ? AND direction = 1 AND session = ?", (n_before, session_of(c).key))
                w.j.conn.commit()
                truth[n_before] = {"kind": "hole"}
            elif k == "tr":
                w.call(c.send_test_req())
                note_written("session")
            elif k == "bigtag":
                # a message with a 19 digit tag: either refused at once or retransmittable later
                try:
                    from asyncfix import FIXMessage as _FM
                    r = w.send(_FM("D", {11: f"big{uid}", 55: "X", 10 ** 18: "v"}))
                except Exception:
                    r = ("exc", None)
                if num_out(c) != n_before:
                    note_written("app")
            elif k == "jump":
                # the application moves the outbound counter far ahead (Journaler.set_seq_num): a long run of numbers
                # that were never sent - longer than any page a range query might be read in
                target = n_before + 1203
                w.j.set_seq_num(session_of(c), next_num_out=target)
                if num_out(c) != target:
                    return {"signature": "harness|jump_failed", "clause": "harness", "detail": {"out": num_out(c)}, "replay": {"case": case}}
                for n in range(n_before, target):
                    truth[n] = {"kind": "hole"}
            elif k == "relog":
                # orderly Logout, new connection, Logon: the journal keeps a Logout and a second Logon in the range
                from asyncfix.connection import ConnectionState
                w.call(c.disconnect(ConnectionState.DISCONNECTED_WCONN_TODAY, logout_message="bye"))
                w.advance(1.0)
                note_written("session")
                w.connect()
                w.logon()
                note_written("session")
                if c.connection_state.name != "ACTIVE":
                    return {"signature": "harness|relogon_failed", "clause": "harness", "detail": {"state": c.connection_state.name}, "replay": {"case": case}}
            else:
                w.send(_mk(k, uid))
                note_written({"app": "app", "grp": "app", "pdn": "app", "dec": "declined", "hb": "session", "ugrp": "app", "boom": "declined", "ngrp": "app", "egrp": "app", "u8": "app"}[k])
        if awaiting:
            w.advance(1.0)
            w.peer("D", w.peer_seq + 2, [(11, "early")])
            w.peer_seq += 3
            note_written("session")
            if c.connection_state.name != "RESENDREQ_AWAITING":
                return None
        last = num_out(c) - 1
        if sorted(truth) != list(range(1, last + 1)):
            return {"signature": "harness|truth_incomplete", "clause": "harness", "detail": {"truth": sorted(truth), "last": last}, "replay": {"case": case}}
        first_class = None
        for i, (b, e) in enumerate(reqs):
            w.advance(1.0)
            v = one_request(w, truth, last, b, e, awaiting, i, first_class, case, concurrent=concurrent)
            if v:
                return v
            first_class = req_class(b, e, last)
        return None
    finally:
        w.close()


def req_class(b, e, last):
    if not isinstance(b, int) or not isinstance(e, int):
        return "not_numeric_or_missing"
    if b <= 0:
        bc = "begin_nonpositive"
    elif b > last:
        bc = "begin_beyond_last"
    else:
        bc = "begin_valid"
    if bc != "begin_valid":
        return bc
    if e == 0 or e >= last:
        ec = "end_open_or_at_last"
    elif e < b:
        ec = "end_invalid"
    else:
        ec = "end_bounded_below_last"
    return f"{bc}+{ec}"


def one_request(w, truth, last, b, e, awaiting, idx, first_class, case, concurrent=False):
    c = w.c
    st0 = c.connection_state.name
    live0 = num_out(c)
    stored0 = stored_counters(w.j, w.T, w.S)
    skey = session_of(w.c).key
    rows0 = {seq: m for (k_, d, seq, m) in journal_rows(w.j) if d == 1 and k_ == skey}
    foreign0 = [r for r in journal_rows(w.j) if r[0] != skey]
    # zero-padded spellings ("00", "0003") are legal FIX ints: same meaning as the number
    spell_b, spell_e = b, e
    if isinstance(b, str) and b.isdigit():
        b = int(b)
    if isinstance(e, str) and e.isdigit():
        e = int(e)
    numeric = isinstance(b, int) and isinstance(e, int)
    valid = numeric and 1 <= b <= last and (e == 0 or e >= b)
    R = (last if (e == 0 or e > last) else e) if numeric else None
    w.take()
    if concurrent:
        # one fixed interleaving: the transport is congested, the reply parks in its first drain(); the application
        # sends a new message from another task meanwhile; then the congestion ends (FIFO wake-up)
        from asyncfix import FIXMessage
        w.writer.pause()
        w.peer("2", None, [(7, spell_b), (16, spell_e)])
        t = w.loop.create_task(w.c.send_msg(FIXMessage("D", {11: "live", 55: "X"})))
        w.run()
        w.writer.resume()
        w.run()
        out = [raw for raw in w.take() if b"\x0111=live\x01" not in raw]
        sent_live = w.writer.out and any(b"\x0111=live\x01" in raw for raw in w.writer.out)
    else:
        w.peer("2", None, [(t_, v_) for t_, v_ in ((7, spell_b), (16, spell_e)) if v_ is not None])
        out = w.take()
    rc = req_class(b, e, last)
    which = "first" if idx == 0 else "second"
    if concurrent:
        which += "+concurrent_send"
    sfx = f"{rc}|{which}"
    det = {"begin": b, "end": e, "last": last, "state_before": st0, "state_after": c.connection_state.name,
           "truth": {n: (t["kind"], t.get("d", {}).get("35")) for n, t in truth.items()},
           "reply": []}

    def V(what, clause, **kw):
        det.update(kw)
        return {"signature": f"{what}|{sfx}", "clause": clause, "detail": det, "replay": {"case": case}}

    if w.livelock:
        return V("livelock", "the request is answered")
    # ---- side effects (every request) --------------------------------------
    live1, stored1 = num_out(c), stored_counters(w.j, w.T, w.S)
    frames = []
    for raw in out:
        f, err = refs.try_parse(raw)
        if f is None:
            return V("reply_unparseable", "the reply is a chain of frames", err=err)
        frames.append((refs.fdict(f), f, raw))
        d = frames[-1][0]
        det["reply"].append((d.get("35"), d.get("34"), d.get("43"), d.get("36")))
    if concurrent:
        # the live message took the next number
        live0 += 1
        if stored0:
            stored0 = (stored0[0], stored0[1] + 1)
    if live1 != live0 or (stored1 and stored0 and stored1[1] not in (stored0[1], live0)):
        return V("side_effect_next_out", "afterwards the next outbound number is what it was before, also when the request is invalid",
                 live=(live0, live1), stored=(stored0, stored1))
    if c.connection_state.name != st0:
        return V("side_effect_state", "afterwards the connection state is what it was before, also when the request is invalid")
    rows1 = {seq: m for (k_, d, seq, m) in journal_rows(w.j) if d == 1 and k_ == skey}
    if [r for r in journal_rows(w.j) if r[0] != skey] != foreign0:
        return V("side_effect_other_session", "afterwards the journaled messages outside the range are what they were before")
    for d, f, raw in frames:
        if str(d.get("11", "")).startswith("foreign"):
            return V("reply_contains_foreign_session_message", "every journaled application message in the range (of this session) is retransmitted")
    lo, hi = (b, R) if valid else (None, None)
    for n in sorted(set(rows0) | set(rows1)):
        if concurrent and n == last + 1:
            continue  # the live message
        inside = valid and lo <= n <= hi
        if not inside and rows0.get(n) != rows1.get(n):
            return V("side_effect_rows_outside_range", "afterwards the journaled messages outside the range are what they were before",
                     number=n, before=rows0.get(n), after=rows1.get(n))
    if not valid:
        # reply unconstrained, but session-level messages are never retransmitted
        for d, f, raw in frames:
            if d.get("43") == "Y" and d.get("35") in ("A", "0", "1", "2", "5"):
                return V("retransmitted_session_message", "session-level messages are never retransmitted")
        return None
    # ---- the reply chain (valid request) ----------------------------------------
    pos = b
    for d, f, raw in frames:
        t = d.get("35")
        n = int(d.get("34", "0"))
        if t == "4":
            if d.get("123") != "Y":
                return V("reply_reset_not_gapfill", "every other number is covered by SequenceReset-GapFill")
            new = int(d.get("36", "0"))
            if n != pos:
                return V("chain_not_contiguous", "the reply is a contiguous chain of frames covering exactly the requested range", at=pos, got=n)
            if new <= n:
                return V("gapfill_not_forward", "the reply is a contiguous chain", at=pos)
            if new - 1 > R:
                return V("gapfill_beyond_range", "the reply covers exactly the requested range of already-sent numbers", new=new, R=R)
            for k in range(n, new):
                tk = truth[k]
                if tk["kind"] == "app":
                    return V("app_message_gapfilled", "every journaled application message in the range that the application agrees to replay is retransmitted", number=k)
            pos = new
        else:
            if d.get("43") != "Y":
                return V("reply_contains_new_message", "the reply is a chain of retransmissions and gap fills", frame=(t, n))
            if n != pos:
                if n > pos and all(truth[k]["kind"] == "hole" for k in range(pos, min(n, last + 1))):
                    return V("hole_not_covered", "every other number (session-level, declined or missing messages) is covered by SequenceReset-GapFill", at=pos, got=n)
                return V("chain_not_contiguous", "the reply is a contiguous chain of frames covering exactly the requested range", at=pos, got=n)
            if n > R:
                return V("retransmission_beyond_range", "covering exactly the requested range", number=n, R=R)
            tk = truth[n]
            if tk["kind"] != "app":
                return V(f"retransmitted_{tk['kind']}", "every other number (session-level, declined or missing messages) is covered by GapFill; session-level messages are never retransmitted", number=n)
            od = tk["d"]
            if t != od["35"]:
                return V("retransmission_type_differs", "retransmitted under its original MsgSeqNum with an otherwise identical body")
            if d.get("122") != od["52"]:
                return V("retransmission_origsendingtime", "OrigSendingTime set to the original SendingTime", got=d.get("122"), want=od["52"])
            if refs.body_fields(f) != refs.body_fields(tk["f"]):
                return V("retransmission_body_differs", "an otherwise identical body", got=refs.body_fields(f), want=refs.body_fields(tk["f"]))
            pos = n + 1
    if pos != R + 1:
        return V("chain_incomplete", "the reply covers exactly the requested range", covered_to=pos - 1, R=R)
    return None


def _work(case):
    return run_case(case)


def cases(quick):
    kinds = SLOTS_Q if quick else SLOTS_T
    lens = (3,) if quick else (3, 4)
    out = []
    for role in ("acceptor", "initiator"):
        for L in lens:
            for slots in itertools.product(kinds, repeat=L):
                if role == "initiator" and ((quick or L > 3) and slots.count("app") == 0 or "relog" in slots):
                    continue
                if slots.count("relog") > 1:
                    continue
                for awaiting in (False, True):
                    last = 1 + L + slots.count("relog") + (1 if awaiting else 0)
                    vals = list(range(-1, last + 3))
                    if role == "initiator":
                        # the role does not enter _process_resend: reduced grid
                        pairs = [(1, 0), (2, 0), (2, last - 1), (last, 0), (0, 0), (last + 1, 0)]
                    else:
                        pairs = [(b, e) for b in vals for e in vals]
                    for p in pairs:
                        out.append((role, slots, awaiting, [p]))
                    if role == "acceptor" and not awaiting:
                        for p in [(1, 0), (2, 0), (2, last - 1), (1, last), (last, 0)]:
                            out.append((role, slots, awaiting, [p], True))
                    # second request after a first one
                    red = [(1, 0), (2, 0), (2, 3), (last, 0), (1, 2), (3, 3), (last + 1, 0)]
                    if role == "acceptor" and (not quick or not awaiting):
                        for p1 in red:
                            for p2 in red:
                                out.append((role, slots, awaiting, [p1, p2]))
    # application messages with repeating groups unknown to the library's table; a should_replay callback that raises
    for slots in (("app", "ugrp", "app"), ("ugrp", "app", "hb"), ("app", "boom", "app"), ("boom", "app", "grp"),
                  ("app", "ngrp", "app"), ("ngrp", "egrp", "hb"), ("egrp", "app", "ngrp"), ("app", "bigtag", "app"),
                  ("app", "u8", "app"), ("u8", "app", "hb"), ("u8", "grp", "u8")):
        last = 1 + len(slots)
        for p in [(1, 0), (2, 0), (2, last - 1), (3, 3), (last, 0), (1, 2)]:
            out.append(("acceptor", slots, False, [p]))
        out.append(("acceptor", slots, False, [(1, 0), (1, 0)]))
    # requests whose BeginSeqNo / EndSeqNo are missing or not numbers: invalid, no side effects
    for slots in (("app", "dec", "app"),):
        for p in [("x", 0), (1, "x"), (None, 0), (1, None), ("1.5", 0), (1, ""), (1, "00"), ("02", "000000"), ("0002", "03")]:
            for aw in (False, True):
                out.append(("acceptor", slots, aw, [p]))
    # long ranges: a run of > 1000 unsent numbers between application messages
    for slots in (("app", "jump", "app"), ("app", "jump", "app", "app"), ("jump", "app", "hb")):
        last = 1 + len(slots) - 1 + 1203
        for p in [(1, 0), (2, 0), (2, last - 1), (3, 900), (600, 0), (last, 0), (1, 1), (last - 1, last)]:
            out.append(("acceptor", slots, False, [p]))
    return out


def run(ctx):
    CFG["S"], CFG["T"] = POOL[ctx.seed % len(POOL)]
    cs = cases(ctx.quick)
    ctx.rule = ("product: journal shapes built by real sends (slot kinds app / declined-by-filter / session / hole / group / "
                "TestRequest) x all (BeginSeqNo, EndSeqNo) in {-1..last+2}^2 x receiver ACTIVE / awaiting its own resend, plus "
                "every ordered pair of a reduced request set (second request sees what the first left); "
                "non-trivial = request range contains at least one application message and one non-replayable number")
    ctx.bounds = {"cases": len(cs), "slot_kinds": len(SLOTS_Q if ctx.quick else SLOTS_T)}
    res = ctx.pmap(_work, cs, chunk=64)
    nt = 0
    shapes = set()
    for case, v in zip(cs, res):
        shapes.add((case[0], case[1], case[2], len(case) > 4))
        if "app" in case[1] and len(set(case[1])) > 1:
            nt += 1
        if v:
            ctx.merge_violations([v])
    ctx.count(states=len(shapes), transitions=sum(len(c[3]) for c in cs), traces=len(cs), evaluations=len(cs), nontrivial=nt)
    ctx.outcomes.update(v["signature"].split("|")[0] for v in ctx.violations.values())
    ctx.outcomes.add("ok")
    for c in cs[:: max(1, len(cs) // 4)][:4]:
        ctx.sample({"role": c[0], "slots": c[1], "awaiting": c[2], "requests": c[3]})
    ctx.assumptions += ["ground truth = frames the harness saw leave the endpoint (parsed by the independent framer)",
                        "virtual clock advances 1 s between sends so SendingTimes differ"]


def replay(ctx, rep):
    role, slots, awaiting, reqs = rep["case"][:4]
    if "S" in rep:
        CFG["S"], CFG["T"] = rep["S"], rep["T"]
    v = run_case((role, tuple(slots), awaiting, [tuple(r) for r in reqs]) + tuple(rep["case"][4:]))
    return [v] if v else []
