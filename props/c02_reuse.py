"""C02, part "reuse": the same message OBJECT is handed to the encoder more than once, edited in place between
the sends (the way an application re-uses an order template or corrects a message and sends it again).

Bounded exhaustive: every base shape x every sequence of up to DEPTH edits from the menu (all positions: top level,
every item of every group, nested items), `encode` after every edit.  Two oracles per frame:
  * the independent framer R1 accepts the bytes (BodyLength / CheckSum counted on what is really written);
  * differential: a message object FRESHLY built from the edited object's current content encodes to exactly the
    same bytes under the same number and time (no per-object state survives from the earlier encode).
"""
from mc import refs

CLAUSE = "every byte string a connection hands to its transport is accepted by an independent FIX parser"
S, T = "SND", "TGT"


def bases():
    return {
        "flat": ("D", [(11, "o1"), (55, "X"), (58, "text")]),
        "group2": ("D", [(11, "o2"), (453, [[(448, "p1"), (447, "D"), (452, "1")], [(448, "p2"), (447, "D"), (452, "3")]]), (55, "Y")]),
        "nested": ("D", [(11, "o3"), (453, [[(448, "p1"), (447, "D"), (802, [[(523, "s1"), (803, "1")], [(523, "s2"), (803, "2")]])]]), (55, "Z")]),
        "nonascii": ("D", [(11, "o4"), (58, "Zürich"), (453, [[(448, "東"), (447, "D")]])]),
    }


def build(shape):
    from asyncfix import FIXMessage
    from asyncfix.message import FIXContainer

    def fill(c, entries):
        for tag, v in entries:
            if isinstance(v, list):
                for item in v:
                    g = FIXContainer()
                    fill(g, item)
                    c.add_group(tag, g)
            else:
                c.set(tag, v)

    m = FIXMessage(shape[0])
    fill(m, shape[1])
    return m


def content(c):
    """Current content of a live container as a shape (read through the tag map, the encoder's own source)."""
    out = []
    for tag, v in c.tags.items():
        if hasattr(v, "groups"):
            out.append((tag, [content(g) for g in v.groups]))
        else:
            out.append((tag, v))
    return out


def containers(c, path=()):
    """All containers reachable from c: (path, container); path = ((group tag, index), ...)."""
    yield path, c
    for tag, v in list(c.tags.items()):
        if hasattr(v, "groups"):
            for i, g in enumerate(v.groups):
                yield from containers(g, path + ((tag, i),))


def edits(msg):
    """Menu of in-place edits applicable to msg now: (label, callable)."""
    out = []
    for path, c in containers(msg):
        plain = [t for t, v in c.tags.items() if not hasattr(v, "groups")]
        grp = [t for t, v in c.tags.items() if hasattr(v, "groups")]
        for t in plain[:2] + plain[-1:]:
            for v in ("x", "longer-value", "é東"):
                out.append((("set", path, t, v), (lambda c=c, t=t, v=v: c.set(t, v, replace=True))))
            out.append((("setitem", path, t), (lambda c=c, t=t: c.__setitem__(t, "via-setitem"))))
            if len(plain) > 1:
                out.append((("del", path, t), (lambda c=c, t=t: c.__delitem__(t))))
        out.append((("new_tag", path), (lambda c=c: c.set(5001, "added"))))
        for t in grp:
            out.append((("add_item", path, t), (lambda c=c, t=t: c.add_group(t, {list(c.get_group_by_index(t, 0).tags)[0]: "extra"}))))
            out.append((("add_item_front", path, t), (lambda c=c, t=t: c.add_group(t, {list(c.get_group_by_index(t, 0).tags)[0]: "front"}, 0))))
            out.append((("set_group", path, t), (lambda c=c, t=t: c.set_group(t, [{list(c.get_group_by_index(t, 0).tags)[0]: "only"}]))))
            out.append((("accessor_list", path, t), (lambda c=c, t=t: c.get_group_list(t)[-1].set(list(c.get_group_list(t)[-1].tags)[0], "through-list", replace=True))))
    return out


def encode(codec, msg, num):
    from asyncfix.session import FIXSession

    sess = FIXSession("k", T, S)
    sess.next_num_out = num
    sess.next_num_in = 1
    try:
        return "bytes", codec.encode(msg, sess).encode("utf-8")
    except Exception as e:  # noqa
        return "refused", type(e).__name__


def run_sequence(base_name, labels):
    """Replays a sequence of edit labels on a fresh base object; returns (violation | None, n_frames, outcome)."""
    from asyncfix import FIXMessage

    codec = Codec_fixed()
    msg = build(bases()[base_name])
    frames = 0
    steps = [None] + list(labels)
    for i, lab in enumerate(steps):
        if lab is not None:
            menu = dict(edits(msg))
            if lab not in menu:
                return None, frames, "edit_not_applicable"
            try:
                menu[lab]()
            except Exception as e:  # noqa  (the container may refuse an edit: not C02's business)
                return None, frames, "edit_refused:" + type(e).__name__
        kind, x = encode(codec, msg, 10 + i)
        fresh = FIXMessage(msg.msg_type)
        _refill(fresh, content(msg))
        kind2, y = encode(Codec_fixed(), fresh, 10 + i)
        if kind == "refused" and kind2 == "refused":
            continue
        frames += 1
        if kind == "bytes":
            f, err = refs.try_parse(x)
            if f is None:
                return _v("reused_frame_malformed", base_name, labels[:i], err, x), frames, "malformed"
        if kind != kind2 or x != y:
            return _v("reused_object_differs_from_fresh", base_name, labels[:i], "bytes differ from a freshly built equal message", x, y), frames, "differs"
    return None, frames, "ok"


def Codec_fixed():
    from asyncfix.codec import Codec
    from asyncfix.protocol import FIXProtocol44

    c = Codec(FIXProtocol44())
    c.current_datetime = lambda: "20240101-00:00:00.000"
    return c


def _refill(c, entries):
    from asyncfix.message import FIXContainer

    for tag, v in entries:
        if isinstance(v, list):
            for item in v:
                g = FIXContainer()
                _refill(g, item)
                c.add_group(tag, g)
        else:
            c.tags[tag] = v  # raw content, exactly as the live object holds it


def _edit_class(lab):
    where = "top" if not lab[1] else ("nested_item" if len(lab[1]) > 1 else "group_item")
    return f"{lab[0]}@{where}"


def _v(what, base_name, labels, reason, x, y=None):
    cause = "+".join(_edit_class(l) for l in labels[-1:]) or "no_edit"
    det = {"base": base_name, "edits": [list(map(_js, l)) for l in labels], "reason": reason, "frame": x}
    if y is not None:
        det["fresh_frame"] = y
    return {"signature": f"{what}|{cause}:{reason if y is None else 'stale_state'}", "clause": CLAUSE, "detail": det,
            "replay": {"part": "reuse", "base": base_name, "edits": [list(map(_js, l)) for l in labels]}}


def _js(x):
    return [list(p) for p in x] if isinstance(x, tuple) else x


def _from_js(l):
    return tuple(tuple(tuple(p) for p in x) if isinstance(x, list) else x for x in l)


def _work(item):
    base_name, first = item
    viol = {}
    n = frames = 0
    outcomes = set()
    msg = build(bases()[base_name])
    first_menu = [l for l, _ in edits(msg)]
    if first is None:
        seqs = [()]
    else:
        seqs = [(first,)]
        if DEPTH[0] >= 2:
            # second edits: the menu after the first edit
            try:
                dict(edits(msg))[first]()
                seqs += [(first, l2) for l2, _ in edits(msg)]
            except Exception:  # noqa
                pass
    for labels in seqs:
        v, nf, oc = run_sequence(base_name, labels)
        n += 1
        frames += nf
        outcomes.add(oc.split(":")[0])
        if v is not None and v["signature"] not in viol:
            viol[v["signature"]] = v
    return {"viol": list(viol.values()), "n": n, "frames": frames, "outcomes": sorted(outcomes), "menu": len(first_menu)}


DEPTH = [2]


def run_part(ctx):
    DEPTH[0] = 2
    items = []
    for b in bases():
        msg = build(bases()[b])
        items.append((b, None))
        items += [(b, l) for l, _ in edits(msg)]
    res = ctx.pmap(_work, items, chunk=4)
    n = frames = 0
    for r in res:
        ctx.merge_violations(r["viol"])
        n += r["n"]
        frames += r["frames"]
        ctx.outcomes.update("reuse_" + o for o in r["outcomes"])
    ctx.bounds["reuse"] = {"bases": list(bases()), "edit_depth": DEPTH[0], "sequences": n, "frames_checked": frames,
                           "first_level_edits": len(items) - len(bases())}
    ctx.assumptions.append(
        "C02 reuse part: one message object encoded after each of up to 2 in-place edits (set / __setitem__ / del / new tag "
        "at top level, in every group item and nested item; add_group back / front, set_group, edit through "
        "get_group_list); an edit the container refuses ends the sequence")
    return {"sequences": n, "frames": frames}


def replay_part(ctx, rep):
    v, _nf, _oc = run_sequence(rep["base"], [_from_js(l) for l in rep["edits"]])
    return [v] if v else []
