"""R10 - independent FIX dictionary walker for C15.

Reads a QuickFIX-style XML dictionary with xml.etree only (no code of
asyncfix/protocol/schema.py is used) and yields, per message, the expanded
member tree with components inlined.

Member = dict:
  k    "f" plain field | "g" repeating group
  tag  tag number (str), name, typ (declared datatype, as spelled in the XML)
  en   tuple of enumerators ("" for none)
  req  three-valued requiredness relative to the enclosing container (message
       body or one group item):
         "Y"  required='Y' and every <component> reference between the container
              and the member is required='Y'
         "N"  required='N'
         "?"  required='Y' but reached through a <component required='N'>
              reference: "required if the component is present" (FIX spec),
              optional (QuickFIX), always required (flattening).  The property
              does not say which: such members are always present in generated
              valid instances and never removed as a fault.
  mem  (groups) list of members of one group item, in dictionary order; the first
       one is the group delimiter (must start every item).
"""
import xml.etree.ElementTree as ET


class DictError(Exception):
    pass


def _yes(el):
    return el.attrib.get("required", "N").upper() == "Y"


class Dictionary:
    def __init__(self, root, name):
        if isinstance(root, ET.ElementTree):
            root = root.getroot()
        self.name = name
        self.fields = {}  # name -> (tag, typ, enums)
        for f in root.find("fields"):
            if f.tag != "field":
                raise DictError("unexpected element in <fields>: %s" % f.tag)
            en = tuple(v.attrib["enum"] for v in f if v.tag == "value")
            self.fields[f.attrib["name"]] = (f.attrib["number"], f.attrib["type"], en)
        self.by_tag = {}
        for n, (t, ty, en) in self.fields.items():
            if t in self.by_tag:
                raise DictError("tag %s declared twice" % t)
            self.by_tag[t] = (n, ty, en)
        comps = root.find("components")
        self.components = {}
        if comps is not None:
            for c in comps:
                self.components[c.attrib["name"]] = c
        self.component_order = list(self.components)
        self.header = self._expand(root.find("header"), False, ())
        tr = root.find("trailer")
        self.trailer = self._expand(tr, False, ()) if tr is not None else []
        self.messages = []  # (name, msgtype, members)
        self.skipped = []
        for m in root.find("messages"):
            mem = self._expand(m, False, ())
            dup = _dups(mem)
            if dup:
                self.skipped.append((m.attrib["name"], "duplicate member " + dup))
                continue
            self.messages.append((m.attrib["name"], m.attrib["msgtype"], mem))
        self.header_tags = set(_all_tags(self.header))
        self.trailer_tags = set(_all_tags(self.trailer))
        # names used as a group anywhere
        self.group_tags = set()
        for _n, _t, mem in self.messages:
            for g in _iter_groups(mem):
                self.group_tags.add(g["tag"])
        for g in _iter_groups(self.header):
            self.group_tags.add(g["tag"])

    def _field(self, name):
        if name not in self.fields:
            raise DictError("member %s is not declared in <fields>" % name)
        return self.fields[name]

    def _expand(self, element, optional_comp, stack):
        out = []
        for el in element:
            if el.tag == "field":
                tag, typ, en = self._field(el.attrib["name"])
                req = "N" if not _yes(el) else ("?" if optional_comp else "Y")
                out.append({"k": "f", "tag": tag, "name": el.attrib["name"], "typ": typ, "en": en, "req": req})
            elif el.tag == "group":
                tag, typ, en = self._field(el.attrib["name"])
                req = "N" if not _yes(el) else ("?" if optional_comp else "Y")
                mem = self._expand(el, False, stack)
                if not mem:
                    raise DictError("group %s has no members" % el.attrib["name"])
                out.append({"k": "g", "tag": tag, "name": el.attrib["name"], "typ": typ, "en": en, "req": req,
                            "mem": mem})
            elif el.tag == "component":
                cname = el.attrib["name"]
                if cname in stack:
                    raise DictError("circular component reference " + cname)
                if cname not in self.components:
                    raise DictError("component %s is not declared" % cname)
                out.extend(self._expand(self.components[cname], optional_comp or not _yes(el), stack + (cname,)))
            else:
                raise DictError("unexpected element " + el.tag)
        return out

    def component_deps(self):
        """component name -> set of directly referenced component names."""
        deps = {}
        for n, c in self.components.items():
            deps[n] = set(e.attrib["name"] for e in c.iter("component") if e is not c)
        return deps


def _dups(members):
    """Name of a tag that occurs twice in one container (at any depth), or ''."""
    seen = set()
    for m in members:
        if m["tag"] in seen:
            return m["name"]
        seen.add(m["tag"])
        if m["k"] == "g":
            d = _dups(m["mem"])
            if d:
                return d
    return ""


def _all_tags(members):
    for m in members:
        yield m["tag"]
        if m["k"] == "g":
            for t in _all_tags(m["mem"]):
                yield t


def _iter_groups(members):
    for m in members:
        if m["k"] == "g":
            yield m
            for g in _iter_groups(m["mem"]):
                yield g


def count_positions(members):
    n = 0
    for m in members:
        n += 1
        if m["k"] == "g":
            n += count_positions(m["mem"])
    return n


def depth(members):
    d = 0
    for m in members:
        if m["k"] == "g":
            d = max(d, 1 + depth(m["mem"]))
    return d
