"""C10 - the decoder is total, makes progress and never accepts a corrupted frame.

Explorer C (bounded-exhaustive inputs) over the REAL ``Codec.decode`` and the REAL
``socket_read_task``:

 (a) every string of <= L grammar tokens (16 tokens, L = 4 quick / 5 thorough);
 (b) every single-byte substitution (255 values), deletion and insertion (256
     values) at every position of a corpus of valid frames built by the
     independent encoder ``mc.refs`` (one corpus entry carries leading junk);
 (c) a table of grammar-aware malformed frames (non-numeric / negative / wrong
     BodyLength, non-numeric / wrong / missing CheckSum, non-numeric tags, missing
     '=', empty fields, wrong field order, wrong BeginString, every truncation and
     every head cut of a frame, junk), each followed by >= 1200 bytes of valid
     frames on a LIVE acceptor endpoint (``mc.world.World1``) whose scripted peer
     numbers consecutively and answers ResendRequests like a real counterparty;
     plus the single-byte edits of (b) on the live loop (a fixed set of byte
     values in the quick tier, all 256 in the thorough tier).

The table (c) also holds defects that sit INSIDE an open repeating group (field
without '=', non-numeric / empty tag, empty field, frame without CheckSum ending
in a group item) and well-FRAMED messages (correct BodyLength and CheckSum) that
are malformed for the session layer (non-numeric / empty / missing MsgSeqNum,
missing MsgType or CompIDs, admin messages with non-numeric numbers).  Valid
traffic alternates plain frames, frames with a group and frames with a nested group.

Every input of (a), (b), (c) goes through these stages on the bare decoder, all on
ONE Codec instance per input (as a connection uses one), never shared between inputs:
  single      decode(input)
  state_leak  three valid frames (plain / group / nested group) decoded right after
              it must give exactly what a fresh instance gives
  one_buffer  repeated decoding of input + 2 valid frames in ONE buffer
  chunked     the read loop's buffer discipline replayed by hand: the input is one
              read, then valid frames arrive one read each (drop ``consumed`` bytes
              when > 0, stop when no message)

Oracle (three valued, independent of codec.py):
  raises            no call may raise in silent mode
  out_of_range      0 <= consumed <= len(buffer)
  nonterminating    the drop-consumed loop ends within len(buffer)+2 calls
  accepted_corrupt  a returned message implies that BodyLength points exactly at a
                    ``10=`` field whose (leniently read) value equals the byte sum
                    before it; self-consistent corruptions (``10=0135``) are NOT
                    demanded to fail
  blocked           after enough valid bytes to outlast every "wait for more
                    data" the input can legitimately ask for (declared BodyLength
                    + trailer) the LAST valid frame must be returned.  Frames
                    swallowed as collateral of a resync are unconstrained.
  live_*            same on the live endpoint: a later frame reaches on_message,
                    the receive buffer ends small, no livelock, no frame is
                    delivered twice.  A disconnect
                    decided by the session layer is unconstrained here.
"""
import itertools
import re

from mc import refs
from mc.world import World1, msg_buffer, num_in, HarnessError

SOH = b"\x01"
MARK = b"8=FIX."
BEGIN = b"FIX.4.4"

POOL = [("SRV", "CLI"), ("ACC", "INI"), ("S1", "T1"), ("EXCH", "FIRM")]
ROOTS = ["ord", "clo", "req", "tkt"]

NEED_CAP = 30000  # declared lengths beyond this: progress not demanded (legit long wait)
LIVE_MIN_TAIL = 1200
LIVE_BUF_BOUND = 300
QUICK_LIVE_VALUES = (0x00, 0x01, 0x2D, 0x30, 0x38, 0x39, 0x3D, 0x78)  # NUL SOH - 0 8 9 = x

CLAUSE = {
    "raises": "decoding in its non-raising mode never raises",
    "out_of_range": "reports a consumed length between zero and the buffer length",
    "nonterminating": "repeated decoding of any buffer terminates",
    "accepted_corrupt": "a message is returned only when the frame's CheckSum and BodyLength are "
                        "consistent with its bytes",
    "blocked": "one malformed frame can never block the frames that follow it (read-loop buffer "
               "discipline replayed on the bare decoder)",
    "live_blocked": "one malformed frame can never block the frames that follow it on a live connection",
    "live_buffer_unbounded": "one malformed frame can never block the frames that follow it on a live "
                             "connection (receive buffer stays bounded)",
    "live_livelock": "repeated decoding of any buffer terminates (live read loop)",
    "state_leak": "decoding in its non-raising mode never raises / one malformed frame can never block the frames "
                  "that follow it (a valid frame decoded on the SAME Codec instance after the malformed input)",
    "live_delivered_twice": "one malformed frame can never block the frames that follow it on a live connection "
                            "(every frame is handed over once: no frame is delivered twice)",
    "live_held_back": "one malformed frame can never block the frames that follow it on a live connection "
                      "(a valid frame received in the SAME read is handed over without waiting for further data)",
    "live_stale_bytes": "one malformed frame can never block the frames that follow it on a live connection "
                        "(bytes left over when a connection dies are not part of the next connection's stream)",
    "split_marker_lost": "one malformed frame can never block the frames that follow it (a complete, self-delimiting "
                         "malformed frame: the valid frames behind it are returned however the stream is split)",
    "live_split_marker_lost": "one malformed frame can never block the frames that follow it on a live connection (a "
                              "complete, self-delimiting malformed frame: the valid frames behind it are delivered "
                              "however the stream is split into reads)",
    "baseline": "valid frames that follow are decoded (sanity: an undamaged stream is returned frame by frame)",
}

# --------------------------------------------------------------------------
# state shared with forked workers
# --------------------------------------------------------------------------
ST = {}
CALLS = 0
_COD = None


_PROTO = None


def new_codec():
    """A fresh Codec instance. One instance serves ALL stages of one case (the
    malformed input and the valid frames that follow it, as on a connection);
    cases never share an instance, so a verdict never depends on what a worker
    process decoded before."""
    global _COD, _PROTO
    from asyncfix.codec import Codec

    if _PROTO is None:
        from asyncfix.protocol import FIXProtocol44

        _PROTO = FIXProtocol44()
    _COD = Codec(_PROTO)
    return _COD


def codec():
    return _COD if _COD is not None else new_codec()


def tail_body(n, root):
    """Valid application traffic: plain frames, frames with a repeating group and
    frames with a nested group take turns."""
    b = [(11, "%s%d" % (root, n)), (55, "MSFT")]
    if n % 3 == 1:
        b += [(453, 2), (448, "p1"), (447, "D"), (452, 1), (448, "p2"), (447, "D"), (452, 3)]
    elif n % 3 == 2:
        b += [(453, 1), (448, "p1"), (447, "D"), (452, 1), (802, 2), (523, "s1"), (803, 1), (523, "s2"), (803, 2)]
    return b + [(54, 1), (38, 100)]


def setup(seed=None, S=None, T=None, root=None):
    if S is None:
        S, T = POOL[seed % len(POOL)]
        root = ROOTS[seed % len(ROOTS)]
    if root is None:
        root = ROOTS[0]
    ST.clear()
    ST.update(S=S, T=T, root=root)
    # valid tail frames as the peer T would send them to the endpoint S
    ST["tail"] = [refs.frame("D", 1000 + i, T, S, tail_body(1000 + i, root)) for i in range(400)]
    ST["tail_cum"] = list(itertools.accumulate(len(f) for f in ST["tail"]))
    ST["tail_max"] = max(len(f) for f in ST["tail"][:3])
    # probes for the state-leak stage: (frame, rendering by a fresh decoder instance)
    ST["probes"] = []
    for i in (0, 1, 2):
        f = refs.frame("D", 7000 + i, T, S, tail_body(7000 + i, root))
        r = new_codec().decode(f, silent=True)
        ST["probes"].append((f, None if r[0] is None else str(r[0]), r[1]))
    ST["corpus"] = build_corpus(S, T, root)
    ST["tokens"] = build_tokens()
    ST["crafted"] = build_crafted(S, T, root)
    return ST


# --------------------------------------------------------------------------
# inputs
# --------------------------------------------------------------------------

def build_tokens():
    hb = b"8=FIX.4.4\x019=5\x0135=0\x01"
    good = b"10=%03d\x01" % refs.checksum(hb)
    return [
        b"8=FIX.4.4\x01", b"9=5\x01", b"35=0\x01", good, b"34=1\x01", b"10=000\x01",
        b"8=FIX.", b"8=FIX.4.2\x01", b"9=\x01", b"9=x\x01", b"9=-5\x01", b"10=x\x01",
        b"x=1\x01", b"=1\x01", b"=", b"\x01",
    ]


def build_corpus(S, T, root):
    """(name, bytes, quick?) - frames from the peer T to the endpoint S; shortest first."""
    def fr(t, n, body=()):
        return refs.frame(t, n, T, S, body)

    grp = [(11, root + "G"), (55, "X"), (453, 2), (448, "p1"), (447, "D"), (452, 1), (448, "p2"), (447, "D"),
           (452, 3), (54, 1), (38, 7)]
    items = [
        ("heartbeat", fr("0", 3), True),
        ("junk_prefixed_testreq", b"\n~" + fr("1", 3, [(112, "t1")]), True),
        ("custom_u8", fr("U8", 3, [(5001, "8"), (5002, "=")]), False),
        ("gapfill", fr("4", 3, [(123, "Y"), (36, 9)]), False),
        ("logon", fr("A", 3, [(98, 0), (108, 30)]), False),
        ("order", fr("D", 3, [(11, root + "1"), (55, "MSFT"), (54, 1), (38, 100), (40, 2), (44, "10.5")]), False),
        ("order_group", fr("D", 3, grp), True),
        ("resendreq", fr("2", 3, [(7, 1), (16, 0)]), False),
        ("execreport_long", fr("8", 3, [(37, "o1"), (17, "e1"), (150, "0"), (39, "0"), (58, "x" * 100)]), False),
    ]
    for name, data, _q in items:
        s = data.find(b"8=")
        refs.parse(data[s:])  # the corpus is valid by the reference framer
    return items


def build_crafted(S, T, root):
    """Grammar-aware malformed inputs: list of (class, bytes). seq 3 = the number
    the scripted peer uses next on the live connection."""
    seq = 3
    ts = "20240101-00:00:00.000"
    hdr = [(35, "D"), (49, T), (56, S), (34, seq), (52, ts)]
    body = [(11, root + "C"), (55, "MSFT"), (453, 1), (448, "p1"), (447, "D"), (452, 1), (54, 1), (38, 100)]
    F = hdr + body
    good = refs.build(F)
    n_body = int(good.split(SOH)[1][2:])
    ck = int(good[-4:-1])
    out = []

    def add(cls, data):
        out.append((cls, data))

    add("valid", good)
    for v in (b"x", b"", b"4x", b"1e2", b"0x20", b"4 9", b"\x00", b"=", b"9=5"):
        add("bodylength_non_numeric", refs.build(F, body_length=v))
    for d in (-10, -2, -1, 1, 2, 10, 100, 1000):
        if n_body + d >= 0:
            add("bodylength_wrong", refs.build(F, body_length=n_body + d))
    add("bodylength_wrong", refs.build(F, body_length=0))
    add("bodylength_wrong", refs.build(F, body_length=n_body * 10))
    # the frame of tests/test_codec.py::test_decode_custom_msg_type (BodyLength two short)
    add("bodylength_wrong", b"8=FIX.4.4\x019=82\x0135=ASD\x0149=sender\x0156=target\x0134=1\x01"
        b"52=20230919-07:13:26.808\x0144=123.45\x0138=9876\x0155=VOD.L\x0110=248\x01")
    for k in range(1, 41):
        add("bodylength_negative", refs.build(F, body_length=b"-%d" % k))
    add("bodylength_negative", refs.build(F, body_length=b"-%d" % n_body))
    raw_body = b"".join(b"%s=%s\x01" % (str(t).encode(), str(v).encode()) for t, v in F)

    def with_ck(pre):
        return pre + b"10=%03d\x01" % refs.checksum(pre)

    add("bodylength_missing", with_ck(b"8=FIX.4.4\x01" + raw_body))
    add("bodylength_no_equals", with_ck(b"8=FIX.4.4\x019\x01" + raw_body))
    add("bodylength_no_equals", with_ck(b"8=FIX.4.4\x01%d\x01" % n_body + raw_body))
    add("wrong_order", with_ck(b"8=FIX.4.4\x0135=D\x019=%d\x01" % n_body + raw_body[5:]))
    add("wrong_order", with_ck(b"9=%d\x018=FIX.4.4\x01" % n_body + raw_body))
    add("wrong_order", refs.build([F[1], F[0]] + F[2:]))
    add("wrong_order", refs.build(F[1:] + [F[0]]))
    for v in (b"x", b"", b"1x3", b"abc", b"\x00\x00\x00", b"1 3", b"=", b"0x1"):
        add("checksum_non_numeric", refs.build(F, cksum=v))
    for v in ((ck + 1) % 256, (ck - 1) % 256, (ck + 128) % 256):
        add("checksum_wrong", refs.build(F, cksum=v))
    add("checksum_wrong", refs.build(F, cksum=b"%d" % (ck + 256)))
    # numbers with more digits than any integer conversion accepts (Python refuses > 4300 digits)
    for nd in (19, 400, 4299, 4300, 4301, 5000):
        big = b"1" * nd
        add("bodylength_wrong", refs.build(F, body_length=big))
        add("checksum_wrong", refs.build(F, cksum=big))
        add("checksum_wrong", refs.build(F, cksum=b"0" * nd + b"%03d" % ck))
        add("non_numeric_tag", refs.build(F[:6] + [(big.decode(), "1")] + F[6:]))
    # CheckSum is three digits: a value that is numerically right but spelled otherwise is not the frame that was sent
    add("checksum_wrong", refs.build(F, cksum=b"0%03d" % ck))
    add("checksum_wrong", refs.build(F, cksum=b"%d" % ck if ck < 100 else b"+%d" % ck))
    add("checksum_missing", good[: good.rindex(b"10=")])
    add("checksum_missing", good[:-1])
    add("checksum_missing", good[: good.rindex(b"10=")] + b"11=zz\x01")
    add("checksum_in_middle", refs.build(F[:6] + [(10, "123")] + F[6:]))
    add("checksum_in_middle", refs.build(F[:6] + [(10, "abc")] + F[6:]))
    add("checksum_in_middle", refs.build(F + [(10, "zz")]))
    for pos in (0, 1, 5, 6, 9, 10, len(F)):
        for t in ("x", "", "3x", "5 5", "-", "1.5", "\x00"):
            add("non_numeric_tag", refs.build(F[:pos] + [(t, "1")] + F[pos:]))

    def raw_at(pos, piece):
        pre = b"".join(b"%s=%s\x01" % (str(t).encode(), str(v).encode()) for t, v in F[:pos])
        post = b"".join(b"%s=%s\x01" % (str(t).encode(), str(v).encode()) for t, v in F[pos:])
        b = pre + piece + post
        return with_ck(b"8=FIX.4.4\x019=%d\x01" % len(b) + b)

    for pos in (0, 1, 5, 6, 9, 10, len(F)):
        add("field_without_equals", raw_at(pos, b"38\x01"))
        add("empty_field", raw_at(pos, b"\x01"))
        add("empty_value", raw_at(pos, b"58=\x01"))
    add("repeated_tag_after_group", refs.build(F + [(55, "Y")]))
    add("repeated_tag_after_group", refs.build(F + [(11, "Y")]))
    add("repeated_tag_after_group", refs.build(F + [(448, "p9")]))
    add("repeated_tag", refs.build(F[:6] + [(11, "again")] + F[6:]))
    # framing / header tags a second time inside a correctly framed message: the session layer chokes on them
    for t_, v_ in ((8, "X"), (8, "FIX.4.4"), (35, "D"), (49, T), (34, 3), (52, "20240101-00:00:00.000")):
        add("repeated_tag", refs.build(F[:6] + [(t_, v_)] + F[6:]))
    for v in (b"FIX.4.2", b"FIX.5.0", b"FIXT.1.1", b"FIX.", b"FIX.4.4x", b"FIX.4.", b"", b"fix.4.4"):
        add("wrong_beginstring", refs.build(F, begin=v))
    add("nul_inserted", good.replace(b"MSFT", b"MS\x00FT"))
    add("nul_inserted", good.replace(b"MSFT", b"MSFT\x00"))
    for j in (b"\x00" * 10, b"hello", b"\x01\x01\x01", b"=", b"8=", b"8=FI", b"8=FIX", b"8=FIX.", b"8=FIX.8=FIX.",
              b"8=FIX.4.4\x01", b"8=FIX.4.4\x018=FIX.4.4\x01", b"10=000\x01", bytes(range(256))):
        add("junk", j)
    for i in range(1, len(good)):
        add("truncated", good[:i])
    for i in range(1, len(good)):
        add("head_cut", good[i:])
    # -- defects INSIDE an open repeating group (correct BodyLength / CheckSum around them) --
    G = hdr + [(11, root + "G"), (55, "MSFT"), (453, 2), (448, "p1"), (447, "D"), (452, 1), (802, 1), (523, "s1"),
               (803, 2), (448, "p2"), (447, "D"), (452, 3), (54, 1), (38, 100)]
    gi = next(i for i, (t, _x) in enumerate(G) if t == 453)
    ge = next(i for i, (t, _x) in enumerate(G) if t == 54)

    def enc(fs):
        return b"".join(b"%s=%s\x01" % (str(t).encode(), str(v).encode()) for t, v in fs)

    def g_at(pos, piece):
        b = enc(G[:pos]) + piece + enc(G[pos:])
        return with_ck(b"8=FIX.4.4\x019=%d\x01" % len(b) + b)

    add("valid", refs.build(G))
    for pos in range(gi + 1, ge + 1):
        add("in_group:field_without_equals", g_at(pos, b"38\x01"))
        add("in_group:non_numeric_tag", g_at(pos, b"x=1\x01"))
        add("in_group:non_numeric_tag", g_at(pos, b"44\x00=1\x01"))
        add("in_group:empty_field", g_at(pos, b"\x01"))
        add("in_group:empty_tag", g_at(pos, b"=1\x01"))
        # frame without CheckSum that ends inside the group: BodyLength stale / adjusted
        add("in_group:no_checksum", refs.build(G)[: len(b"8=FIX.4.4\x019=%d\x01" % len(enc(G))) + len(enc(G[:pos]))])
        b = enc(G[:pos])
        add("in_group:no_checksum", b"8=FIX.4.4\x019=%d\x01" % len(b) + b)
        add("in_group:checksum_wrong", refs.build(G[:pos], cksum=b"000" if refs.build(G[:pos])[-4:-1] != b"000" else b"001"))
    # -- well-FRAMED messages (correct BodyLength and CheckSum) the session layer stumbles over --
    def sess(**kw):
        h = [(35, kw.get("t", "D")), (49, kw.get("snd", T)), (56, kw.get("tgt", S)), (34, kw.get("seq", seq)), (52, ts)]
        h = [(t, v) for (t, v) in h if v is not None]
        return refs.build(h + kw.get("body", body))

    for v in ("abc", "", "-1", "0", "1e3", " 5", "3 ", "3.0", "+3", "0x3", "3\x00", "9" * 20, "\xb3"):
        add("session:msgseqnum_value", sess(seq=v))
    add("session:msgseqnum_missing", sess(seq=None))
    add("session:msgtype_missing", refs.build(hdr[1:] + body))
    add("session:msgtype_missing", sess(t=""))
    add("session:msgtype_unknown", sess(t="ZZ"))
    add("session:compid", sess(snd=None))
    add("session:compid", sess(tgt=None))
    add("session:compid", sess(snd="", tgt=""))
    for t, bd in (("4", [(123, "Y"), (36, "abc")]), ("4", [(123, "Y")]), ("4", [(36, "")]), ("4", [(36, "-4")]),
                  ("2", [(7, "abc"), (16, 0)]), ("2", [(7, 1), (16, "xyz")]), ("2", []), ("2", [(7, ""), (16, "")]),
                  ("1", []), ("0", [(112, "abc")]), ("A", [(98, 0), (108, "abc")]), ("A", []), ("3", [(45, "x")]),
                  ("D", [])):
        add("session:admin_body", sess(t=t, body=bd))
        add("session:admin_body+seq", sess(t=t, body=bd, seq="abc"))
    # the same, arriving behind junk in the same read
    n = len(out)
    for i in range(n):
        cls, data = out[i]
        if cls not in ("truncated", "head_cut", "junk", "valid"):
            out.append((cls + "+leading_junk", b"\r\n" + data))
    for i in range(1, len(good), 3):
        out.append(("truncated+leading_junk", b"\r\n" + good[:i]))
    return out


# --------------------------------------------------------------------------
# input classifier (labels only; never decides a verdict)
# --------------------------------------------------------------------------
GROUP_START = {b"453"}
GROUP_MEMBERS = {b"448", b"447", b"452", b"802", b"523", b"803"}


def cause_of(buf, for_raise=False):
    """First anomaly of the first frame candidate of ``buf`` (a candidate runs
    from the first start marker to the next one or the end). ``for_raise``: a
    negative BodyLength is only reported when no later field is unparseable (it
    is never by itself the reason of an exception)."""
    s = buf.find(MARK)
    if s < 0:
        return "no_start_marker"
    nx = buf.find(MARK, s + len(MARK))
    region = buf[s: nx if nx >= 0 else len(buf)]
    fields = region.split(SOH)
    if fields and fields[-1] == b"":
        fields = fields[:-1]
    if len(fields) < 3:
        return "fragment_lt3_fields"
    if fields[0][2:] != BEGIN:
        return "beginstring_wrong"
    f1 = fields[1]
    if b"=" not in f1:
        return "bodylength_no_equals"
    t, v = f1.split(b"=", 1)
    if t != b"9":
        return "second_field_not_bodylength"
    if not v.isdigit():
        if not (v[:1] == b"-" and v[1:].isdigit()):
            return "bodylength_non_numeric"
        if not for_raise:
            return "bodylength_negative"
    negative = not v.isdigit()
    tags = []
    for f in fields[2:]:
        if b"=" not in f:
            return "field_without_equals"
        t, val = f.split(b"=", 1)
        if not t.isdigit():
            return "non_numeric_tag"
        if len(t) > 9:
            return "oversized_tag"
        if t == b"10" and not val.isdigit():
            return "checksum_non_numeric"
        tags.append(t)
    g = next((i for i, t in enumerate(tags) if t in GROUP_START), None)
    if g is not None:
        j = g + 1
        while j < len(tags) and (tags[j] in GROUP_MEMBERS or tags[j] in GROUP_START):
            j += 1
        before = set(tags[:g]) | {b"8", b"9"}
        if any(t in before for t in tags[j:]):
            return "repeated_tag_after_group"
    if negative:
        return "bodylength_negative"
    if tags[-1] != b"10":
        return "no_checksum_field"
    head = len(fields[0]) + 1 + len(fields[1]) + 1
    trailer = len(fields[-1]) + 1
    if len(v) > 18 or int(v) != len(region) - head - trailer or not region.endswith(SOH):
        return "bodylength_mismatch"
    if len(fields[-1]) != 6 or int(fields[-1][3:]) != refs.checksum(region[: len(region) - trailer]):
        return "checksum_mismatch"
    return "well_formed"


def _candidate_fields(buf):
    s = buf.find(MARK)
    if s < 0:
        return []
    nx = buf.find(MARK, s + len(MARK))
    fields = buf[s: nx if nx >= 0 else len(buf)].split(SOH)
    if fields and fields[-1] == b"":
        fields = fields[:-1]
    return fields


def defect_in_group(buf):
    """Label: does the first lexical defect (or the end of a frame that has no
    CheckSum field) of the first frame candidate sit inside an open repeating group?"""
    in_group = False
    last = b""
    for f in _candidate_fields(buf)[2:]:
        t, eq, _val = f.partition(b"=")
        if not eq or not t.isdigit():
            return in_group
        if t in GROUP_START:
            in_group = True
        elif in_group and t not in GROUP_MEMBERS:
            in_group = False
        last = t
    return in_group and last != b"10"


def session_cause(buf):
    """Label for a well-FRAMED message: what the session layer will stumble over."""
    d = {}
    for f in _candidate_fields(buf):
        t, _eq, val = f.partition(b"=")
        d.setdefault(t, val)
    if b"35" not in d or d[b"35"] == b"":
        return "msgtype_missing"
    if b"49" not in d or b"56" not in d:
        return "compid_missing"
    if b"34" not in d:
        return "msgseqnum_missing"
    if not d[b"34"].isdigit():
        return "msgseqnum_non_numeric"
    for t in (b"36", b"7", b"16", b"108"):
        if t in d and not d[t].isdigit():
            return "session_number_non_numeric"
    return "well_formed"


HDR_RE = re.compile(rb"8=FIX\.[^\x01]*\x019=(\d{1,9})\x01")


def need_bytes(buf):
    """Upper bound of the bytes a conforming decoder may legitimately wait for /
    swallow because of headers inside ``buf`` that declare a BodyLength."""
    n = 0
    for m in HDR_RE.finditer(buf):
        n += len(m.group(0)) + int(m.group(1)) + 7
    return n


# --------------------------------------------------------------------------
# independent acceptance oracle
# --------------------------------------------------------------------------
_LENIENT = bytes.maketrans(b"", b"")
# what Python's int() tolerates around / inside a number (latin-1 white space, sign, underscore)
_STRIP = b" \t\n\r\x0b\x0c\x1c\x1d\x1e\x1f\x85\xa0+_"


def _ck_value(v):
    # CheckSum(10) is always exactly three ASCII digits; any other spelling (more / fewer digits, sign, blanks) is
    # not what a sender produced - "10=0112" for "10=112" is a single-byte corruption like any other
    if len(v) == 3 and v.isdigit():
        return int(v)
    return None


def _field_value(buf, start):
    """Bytes of a field value: up to the next SOH, the next start marker or the end."""
    ends = [x for x in (buf.find(SOH, start), buf.find(MARK, start)) if x >= 0]
    return buf[start: min(ends) if ends else len(buf)]


def frame_verdict(buf, consumed, raw):
    """None when the returned message is a frame whose BodyLength and CheckSum are
    consistent with its bytes (leniently), else the name of what was not verified."""
    p = -1
    if isinstance(raw, (bytes, bytearray)) and raw:
        p = buf.find(bytes(raw))
    if p < 0:
        p = buf.find(MARK)
    if p < 0:
        return "no_frame_at_all"
    end = p + len(raw) if isinstance(raw, (bytes, bytearray)) and raw else len(buf)
    end = max(end, min(consumed, len(buf)))
    h1 = buf.find(SOH, p)
    h2 = buf.find(SOH, h1 + 1) if h1 >= 0 else -1
    bl_ok = False
    te = -1
    if h2 >= 0 and buf[h1 + 1: h1 + 3] == b"9=" and buf[h1 + 3: h2].isdigit() and h2 - h1 - 3 <= 18:
        te = h2 + 1 + int(buf[h1 + 3: h2])
        if buf[te: te + 3] == b"10=" and buf[te - 1: te] == SOH:
            bl_ok = True
    if bl_ok:
        if _ck_value(_field_value(buf, te + 3)) == refs.checksum(buf[p:te]):
            return None
        return "checksum_not_verified"
    # BodyLength does not lead to a CheckSum field: is there any self-consistent one?
    i = p
    while True:
        i = buf.find(b"\x0110=", i, end)
        if i < 0:
            break
        if _ck_value(_field_value(buf, i + 4)) == refs.checksum(buf[p: i + 1]):
            return "bodylength_not_verified"
        i += 1
    return "checksum_not_verified"


# --------------------------------------------------------------------------
# stage runner on the bare decoder
# --------------------------------------------------------------------------

def call(buf):
    global CALLS
    CALLS += 1
    try:
        r = codec().decode(buf, silent=True)
    except Exception as e:  # noqa: BLE001 - totality is the property
        return ("exc", type(e).__name__, str(e)[:160])
    if not (isinstance(r, tuple) and len(r) == 3):
        return ("exc", "BadReturn", repr(r)[:160])
    return ("ok", r[0], r[1], r[2])


def _v(kind_sig, cause, detail, rep):
    return {"signature": "%s|%s" % (kind_sig, cause), "clause": CLAUSE[kind_sig], "detail": detail, "replay": rep}


def check_call(buf, r, kind, stage, rep):
    """Violation for ONE decoder call or None."""
    if r[0] == "exc":
        return _v("raises", "%s:%s" % (r[1], cause_of(buf, for_raise=True)),
                  {"stage": stage, "buffer": buf[:400], "exception": r[1], "message": r[2]}, rep)
    _, msg, n, raw = r
    if not isinstance(n, int) or isinstance(n, bool) or n < 0:
        return _v("out_of_range", "consumed_negative:%s" % cause_of(buf),
                  {"stage": stage, "buffer": buf[:400], "consumed": repr(n), "buffer_len": len(buf)}, rep)
    if n > len(buf):
        junk = "leading_junk" if buf.find(MARK) > 0 else "no_leading_junk"
        return _v("out_of_range", "consumed_beyond_buffer:%s" % junk,
                  {"stage": stage, "buffer": buf[:400], "consumed": n, "buffer_len": len(buf)}, rep)
    if msg is not None:
        bad = frame_verdict(buf, n, raw)
        if bad:
            return _v("accepted_corrupt", "%s:%s" % (bad, kind),
                      {"stage": stage, "buffer": buf[:400], "consumed": n, "returned": str(msg)[:300]}, rep)
    return None


def _res_class(buf, r):
    _, msg, n, _raw = r
    if msg is not None:
        return "msg"
    if n == 0:
        return "none:0"
    if n == len(buf):
        return "none:all"
    return "none:part"


def tail_count(need, minimum):
    """Number of tail frames so that their bytes outlast ``need`` by 3 frames."""
    cum = ST["tail_cum"]
    k = minimum
    want = need + 3 * ST["tail_max"]
    while k < len(cum) and cum[k - 1] < want:
        k += 1
    return k


def sim_case(m, kind):
    """All bare-decoder stages for one input on ONE fresh Codec instance.
    Returns (violation|None, outcome str)."""
    new_codec()
    rep = {"mode": "sim", "input": m, "kind": kind, "S": ST["S"], "T": ST["T"], "root": ST["root"]}
    tail = ST["tail"]
    # -- single ------------------------------------------------------------
    r = call(m)
    v = check_call(m, r, kind, "single", rep)
    if v:
        return v, "violation"
    out = _res_class(m, r)
    # -- state leak: valid frames on the same instance right after the malformed input ----
    for pi, (pf, ptxt, pn) in enumerate(ST["probes"]):
        r = call(pf)
        what = None
        if r[0] == "exc":
            what = "raises:" + r[1]
        elif r[1] is None or r[2] != pn or str(r[1]) != ptxt:
            what = "different_result"
        if what:
            where = "defect_in_open_group" if defect_in_group(m) else "defect_elsewhere"
            return _v("state_leak", "%s:%s" % (what, where),
                      {"stage": "state_leak", "input": m[:400], "valid_frame": pf,
                       "probe": ("plain", "group", "nested_group")[pi],
                       "observed": r[1:3] if r[0] == "exc" else [None if r[1] is None else str(r[1])[:300], r[2]],
                       "expected": [ptxt, pn]}, rep), "violation"
    # -- one buffer -----------------------------------------------------------
    buf = m + tail[0] + tail[1]
    cap = len(buf) + 2
    it = 0
    while True:
        it += 1
        if it > cap:
            return _v("nonterminating", cause_of(m), {"stage": "one_buffer", "input": m[:400], "calls": it}, rep), \
                "violation"
        r = call(buf)
        v = check_call(buf, r, kind, "one_buffer", rep)
        if v:
            return v, "violation"
        if r[2] > 0:
            buf = buf[r[2]:]
        if r[1] is None:
            break
    # -- chunked (read loop discipline) -------------------------------------------
    need = need_bytes(m)
    if need > NEED_CAP:
        return None, out + "/long_wait_unconstrained"
    k = tail_count(need, 6)
    if k >= len(tail):
        raise HarnessError("tail too short for need=%d" % need)
    last = tail[k - 1]
    buf = b""
    delivered_last = False
    n_ret = 0
    for ci, ch in enumerate([m] + tail[:k]):
        if not ch:
            continue
        buf += ch
        cap = len(buf) + 2
        it = 0
        while True:
            it += 1
            if it > cap:
                return _v("nonterminating", cause_of(m), {"stage": "chunked", "input": m[:400], "calls": it}, rep), \
                    "violation"
            r = call(buf)
            v = check_call(buf, r, kind, "chunked", rep)
            if v:
                return v, "violation"
            _, msg, n, raw = r
            if n > 0:
                buf = buf[n:]
            if msg is None:
                break
            n_ret += 1
            if ci == k and isinstance(raw, (bytes, bytearray)) and last in bytes(raw):
                delivered_last = True
    if not delivered_last:
        how = "stuck" if last in buf else "swallowed"
        cause = cause_of(buf) if how == "stuck" else "swallowed:" + cause_of(m)
        return _v("blocked", cause,
                  {"stage": "chunked", "input": m[:400], "valid_frames_fed": k, "valid_bytes_fed": ST["tail_cum"][k - 1],
                   "legit_wait_bytes": need, "messages_returned": n_ret, "buffer_left": len(buf),
                   "buffer_head": buf[:120], "last_frame": how}, rep), "violation"
    return None, out + "/resynced:%s" % ("all" if n_ret >= k else "some_lost")


# --------------------------------------------------------------------------
# live read loop
# --------------------------------------------------------------------------

def live_case(m, kind):
    """Input fed to a live acceptor endpoint after a clean logon, then valid
    traffic from a peer that numbers consecutively and answers ResendRequests
    (gap fill). Returns (violation|None, outcome str)."""
    S, T, root = ST["S"], ST["T"], ST["root"]
    rep = {"mode": "live", "input": m, "kind": kind, "S": S, "T": T, "root": root}
    if not m:
        return None, "empty"
    need = need_bytes(m)
    if need > NEED_CAP:
        return None, "long_wait_unconstrained"
    w = World1("acceptor", S=S, T=T)
    try:
        w.connect()
        w.logon()
        w.take()
        w.peer("D", None, tail_body(2, root))
        if len(w.c.delivered) != 1 or w.c.connection_state.name != "ACTIVE":
            # not a harness problem: the endpoint cannot even take an undamaged frame
            return _v("baseline", "valid_stream_not_decoded:live_warmup",
                      {"delivered": len(w.c.delivered), "state": w.c.connection_state.name,
                       "receive_buffer": len(msg_buffer(w.c))}, rep), "violation"
        before = len(w.c.delivered)
        seq = w.peer_seq
        w.feed(m)
        if (b"\x0134=%d\x01" % seq) in m:
            w.peer_seq += 1  # the garbled transmission used that number
        pending = [None]
        resend_requests = [0]

        def scan():
            for fr in w.take():
                f, _err = refs.try_parse(fr)
                if f is None:
                    continue
                d = refs.fdict(f)
                if d.get("35") == "2" and d.get("7", "").isdigit():
                    pending[0] = int(d["7"])
                    resend_requests[0] += 1

        def answer():
            if pending[0] is not None:
                k = pending[0]
                pending[0] = None
                w.peer("4", k, [(123, "Y"), (36, w.peer_seq)], extra_header=[(43, "Y")])
                scan()

        scan()
        fed = 0
        nfr = 0
        # flush phase: outlast every legitimate wait; answers are deferred
        while fed < max(LIVE_MIN_TAIL, need + LIVE_MIN_TAIL):
            fr = w.peer("D", None, tail_body(w.peer_seq, root))
            fed += len(fr)
            nfr += 1
            scan()
            if w.livelock:
                break
        # settle phase: a proper counterparty answers the ResendRequest
        for _ in range(6):
            if w.livelock:
                break
            answer()
            fr = w.peer("D", None, tail_body(w.peer_seq, root))
            fed += len(fr)
            nfr += 1
            scan()
        left = msg_buffer(w.c)
        cause = cause_of(left) if left else cause_of(m)
        if cause == "well_formed":
            cause = session_cause(left if left else m)
        seen, twice = set(), []
        for (t, n, d) in w.c.delivered:
            key = (t, n, repr(sorted(d.items(), key=repr)))
            if key in seen:
                twice.append((t, n))
            seen.add(key)
        obs = {"input": m[:400], "valid_frames_fed": nfr, "valid_bytes_fed": fed, "legit_wait_bytes": need,
               "delivered_after": len(w.c.delivered) - before, "receive_buffer": len(left),
               "buffer_head": left[:120], "state": w.c.connection_state.name,
               "resend_requests_seen": resend_requests[0]}
        if w.livelock:
            return _v("live_livelock", cause, obs, rep), "violation"
        if twice:
            obs["delivered_twice"] = twice[:5]
            return _v("live_delivered_twice", cause, obs, rep), "violation"
        if w.c.n_disconnect > 0:
            return None, "disconnected_by_session_layer"
        if len(w.c.delivered) == before:
            return _v("live_blocked", cause, obs, rep), "violation"
        if len(left) > LIVE_BUF_BOUND:
            return _v("live_buffer_unbounded", cause, obs, rep), "violation"
        return None, "live_ok:%s" % ("gap" if resend_requests[0] else "nogap")
    finally:
        w.close()



def coarse(m):
    """Coarse input class for the read-loop clauses (one loop defect must not
    fan out over every way a frame can be garbled)."""
    c = cause_of(m)
    if c == "no_start_marker":
        return "junk"
    if c == "fragment_lt3_fields":
        return "fragment"
    if c == "well_formed":
        return "wellformed_frame"
    return "garbled_frame"


def declared_beyond(m):
    """True when a header inside ``m`` declares a BodyLength that reaches beyond the
    end of ``m``: a conforming decoder may take following bytes for its body."""
    for h in HDR_RE.finditer(m):
        if h.start() + len(h.group(0)) + int(h.group(1)) + 7 > len(m):
            return True
    return False


def _live_open(S, T, root, rep):
    """Fresh acceptor, clean logon, one delivered warm-up frame."""
    w = World1("acceptor", S=S, T=T)
    w.connect()
    w.logon()
    w.take()
    w.peer("D", None, tail_body(2, root))
    if len(w.c.delivered) != 1 or w.c.connection_state.name != "ACTIVE":
        return w, _v("baseline", "valid_stream_not_decoded:live_warmup",
                     {"delivered": len(w.c.delivered), "state": w.c.connection_state.name,
                      "receive_buffer": len(msg_buffer(w.c))}, rep)
    return w, None


def _same_read(w, m, k, root, base):
    """Feed m + k valid frames as ONE read. Returns the frames."""
    seq = w.peer_seq
    if (b"\x0134=%d\x01" % seq) in m:
        w.peer_seq += 1
    frames = []
    for i in range(k):
        frames.append(refs.frame("D", w.peer_seq, w.T, w.S, tail_body(base + i, root)))
        w.peer_seq += 1
    w.feed(m + b"".join(frames))
    return frames


def held_back_case(m, kind, k):
    """The malformed input and k valid frames arrive in the SAME read, then the peer
    is silent (no further read, no timer). Every valid frame that is still sitting
    in the receive buffer at quiescence has been held back."""
    S, T, root = ST["S"], ST["T"], ST["root"]
    rep = {"mode": "held", "input": m, "kind": kind, "k": k, "S": S, "T": T, "root": root}
    if not m or len(m) + 200 * k > 4000:
        return None, "held:skipped"
    if declared_beyond(m):
        return None, "held:declared_length_covers_following_bytes_unconstrained"
    w, v = _live_open(S, T, root, rep)
    try:
        if v:
            return v, "violation"
        before = len(w.c.delivered)
        frames = _same_read(w, m, k, root, 5000)
        left = msg_buffer(w.c)
        obs = {"input": m[:400], "valid_frames_in_same_read": k, "delivered_after": len(w.c.delivered) - before,
               "receive_buffer": len(left), "buffer_head": left[:120], "state": w.c.connection_state.name,
               "cause": cause_of(m)}
        if w.livelock:
            return _v("live_livelock", cause_of(m), obs, rep), "violation"
        if w.c.n_disconnect > 0:
            return None, "held:disconnected_by_session_layer"
        held = [i for i, f in enumerate(frames) if f in left]
        if held:
            obs["held_back_frames"] = held
            return _v("live_held_back", coarse(m), obs, rep), "violation"
        return None, "held:ok"
    finally:
        w.close()


def stale_case(m, kind, k):
    """The input (and k valid frames) arrive, the peer dies (EOF), connects again and
    logs on. The new connection's Logon must be processed, a later frame delivered and
    nothing that was received on the dead connection may be processed on the new one."""
    S, T, root = ST["S"], ST["T"], ST["root"]
    rep = {"mode": "stale", "input": m, "kind": kind, "k": k, "S": S, "T": T, "root": root}
    if not m or len(m) + 200 * k > 4000:
        return None, "stale:skipped"
    w, v = _live_open(S, T, root, rep)
    try:
        if v:
            return v, "violation"
        _same_read(w, m, k, root, 5000)
        if w.reader is not None:
            w.reader.feed_eof()
        w.run()
        at_death = msg_buffer(w.c)
        d0 = len(w.c.delivered)
        l0 = w.c.n_logon
        if w.c.n_disconnect < 1 or w.livelock:
            return None, "stale:no_disconnect_on_eof"
        w.connect()
        at_connect = msg_buffer(w.c)
        w.peer_seq = num_in(w.c)  # the peer resynchronised its numbering (what a gap fill would do)
        w.logon()
        new_ids = []
        for i in range(3):
            new_ids.append("%s%d" % (root, 6000 + i))
            w.peer("D", None, tail_body(6000 + i, root))
        got = [d.get("11") for (_t, _n, d) in w.c.delivered[d0:]]
        stale = [x for x in got if x not in new_ids]
        obs = {"input": m[:400], "valid_frames_in_same_read": k, "buffer_when_connection_died": len(at_death),
               "buffer_at_new_connection": len(at_connect), "buffer_head": at_connect[:120],
               "logons_processed_on_new_connection": w.c.n_logon - l0, "delivered_on_new_connection": got,
               "state": w.c.connection_state.name, "cause": cause_of(m)}
        if w.livelock:
            return _v("live_livelock", cause_of(m), obs, rep), "violation"
        if stale:
            return _v("live_stale_bytes", coarse(m) + ":stale_frame_processed", obs, rep), "violation"
        if w.c.n_logon == l0 or not any(x in new_ids for x in got):
            return _v("live_stale_bytes", coarse(m) + ":new_connection_blocked", obs, rep), "violation"
        return None, "stale:ok:%s" % ("buffer_empty" if not at_connect else "harmless_leftover")
    finally:
        w.close()


SELF_DELIMITED = re.compile(rb"\x0110=\d{3}\x01$")


def self_delimiting(m):
    """Complete frame candidate: one start marker, ends with its own SOH-terminated CheckSum field."""
    return m.count(MARK) == 1 and SELF_DELIMITED.search(m) is not None and len(m) < 3000


def _sim_reads(chunks, frames):
    """Read-loop discipline on a fresh Codec; which of ``frames`` were returned (None on any irregularity)."""
    new_codec()
    buf = b""
    got = set()
    for ch in chunks:
        buf += ch
        for _ in range(len(buf) + 2):
            r = call(buf)
            if r[0] != "ok" or not isinstance(r[2], int) or not 0 <= r[2] <= len(buf):
                return None
            if r[2] > 0:
                buf = buf[r[2]:]
            if r[1] is None:
                if r[2] > 0 and buf:
                    continue  # skipped bytes: keep decoding what is already there
                break
            for i, f in enumerate(frames):
                if isinstance(r[3], (bytes, bytearray)) and bytes(r[3]) == f:
                    got.add(i)
        else:
            return None
    return got


def _live_reads(m, chunks, ids, S, T, root, rep):
    w, v = _live_open(S, T, root, rep)
    try:
        if v:
            return None
        d0 = len(w.c.delivered)
        for ch in chunks:
            w.feed(ch)
        if w.livelock:
            return None
        got = [d.get("11") for (_t, _n, d) in w.c.delivered[d0:]]
        return ([x for x in got if x in ids], w.c.n_disconnect > 0, len(msg_buffer(w.c)))
    finally:
        w.close()


def split_case(m, kind, only=None):
    """A self-delimiting malformed frame + 2 valid frames: uncut versus one cut 1..6
    bytes into the first valid frame (= inside its start marker). The peer does not
    count the rejected frame, so both valid frames carry the expected numbers.
    Returns list of (violation, outcome)."""
    S, T, root = ST["S"], ST["T"], ST["root"]
    if not self_delimiting(m):
        return [(None, "split:not_self_delimiting")]
    res = []
    ids = ["%s%d" % (root, 8000 + i) for i in (0, 1)]
    fr = [refs.frame("D", 3 + i, T, S, tail_body(8000 + i, root)) for i in (0, 1)]
    stream = m + fr[0] + fr[1]
    cause = cause_of(m)
    if cause == "well_formed":
        cause = session_cause(m)
    fine = cause
    if cause in ("beginstring_wrong", "bodylength_no_equals", "second_field_not_bodylength"):
        cause = "header_field_rejected"  # one family: the frame is refused at its first two fields
    for stage in ("sim", "live"):
        if only and only[0] != stage:
            continue
        rep0 = {"mode": "split", "stage": stage, "input": m, "kind": kind, "S": S, "T": T, "root": root}
        if stage == "sim":
            ref = _sim_reads([stream], fr)
            ok_ref = ref == {0, 1}
        else:
            ref = _live_reads(m, [stream], ids, S, T, root, rep0)
            ok_ref = ref is not None and ref[0] == ids and not ref[1]
        if not ok_ref:
            res.append((None, "split:%s:uncut_not_both_unconstrained" % stage))
            continue
        for c in range(1, 7):
            if only and only[1] != c:
                continue
            cut = len(m) + c
            chunks = [stream[:cut], stream[cut:]]
            rep = dict(rep0, cut=c)
            if stage == "sim":
                obs = _sim_reads(chunks, fr)
                bad = obs != ref
                shown = None if obs is None else sorted(obs)
            else:
                obs = _live_reads(m, chunks, ids, S, T, root, rep)
                bad = obs is None or obs[0] != ref[0] or obs[1] != ref[1]
                shown = obs
            if bad:
                sig = "split_marker_lost" if stage == "sim" else "live_split_marker_lost"
                res.append((_v(sig, cause, {"input": m[:400], "first_read_ends_with": stream[len(m):cut],
                                            "uncut": sorted(ref) if stage == "sim" else ref, "cut": shown,
                                            "valid_frames": 2, "cause": fine}, rep), "violation"))
            else:
                res.append((None, "split:%s:ok" % stage))
    return res


# --------------------------------------------------------------------------
# enumeration
# --------------------------------------------------------------------------

class Acc:
    """Per-batch accumulator returned by workers."""

    def __init__(self):
        self.v = {}  # signature -> [rank, violation, count]
        self.cases = 0
        self.live = 0
        self.calls = 0
        self.nontriv = 0
        self.out = set()

    def add(self, rank, v, outcome):
        self.out.add(outcome)
        if v is None:
            return
        e = self.v.get(v["signature"])
        if e is None:
            self.v[v["signature"]] = [rank, v, 1]
        else:
            e[2] += 1
            if rank < e[0]:
                e[0], e[1] = rank, v

    def pack(self):
        return {"v": [(r, v, c) for (r, v, c) in self.v.values()], "cases": self.cases, "live": self.live,
                "calls": self.calls, "nontriv": self.nontriv, "out": sorted(self.out)}


def _nontrivial(m):
    return cause_of(m) not in ("no_start_marker", "fragment_lt3_fields")


def _work_tokens(item):
    """item = (prefix tuple, max length). Enumerates prefix + every suffix."""
    global CALLS
    c0 = CALLS
    prefix, lmax, exact = item
    toks = ST["tokens"]
    acc = Acc()
    lens = [0] if exact else range(1, lmax - len(prefix) + 1)
    for extra in lens:
        for suf in itertools.product(range(len(toks)), repeat=extra):
            ids = prefix + suf
            m = b"".join(toks[i] for i in ids)
            v, o = sim_case(m, "token_string")
            acc.cases += 1
            acc.nontriv += _nontrivial(m)
            acc.add((0, len(ids), ids), v, "tok:" + o)
    acc.calls = CALLS - c0
    return acc.pack()


def edits_at(f, pos):
    """Every single-byte edit anchored at ``pos`` (0..len): simplest first."""
    if pos < len(f):
        yield ("deletion", pos, -1, f[:pos] + f[pos + 1:])
        for val in range(256):
            if val != f[pos]:
                yield ("substitution", pos, val, f[:pos] + bytes([val]) + f[pos + 1:])
    for val in range(256):
        yield ("insertion", pos, val, f[:pos] + bytes([val]) + f[pos:])


_KORD = {"deletion": 0, "substitution": 1, "insertion": 2}


def _work_edits(item):
    global CALLS
    c0 = CALLS
    ci, pos, live_values = item
    name, f, _q = ST["corpus"][ci]
    acc = Acc()
    for kind, p, val, m in edits_at(f, pos):
        rank = (1, ci, p, _KORD[kind], val)
        v, o = sim_case(m, kind)
        acc.cases += 1
        acc.nontriv += 1
        acc.add(rank, v, "edit:" + o)
        if live_values is None or val in live_values or kind == "deletion":
            v, o = live_case(m, kind)
            acc.live += 1
            acc.add(rank, v, "edit:" + o)
            v, o = held_back_case(m, kind, 1)
            acc.live += 1
            acc.add(rank, v, "edit:" + o)
    acc.calls = CALLS - c0
    return acc.pack()


def _work_crafted(i):
    global CALLS
    c0 = CALLS
    cls, m = ST["crafted"][i]
    acc = Acc()
    rank = (2, i)
    v, o = sim_case(m, "crafted")
    acc.cases += 1
    acc.nontriv += _nontrivial(m)
    acc.add(rank, v, "crafted:" + o)
    v, o = live_case(m, "crafted")
    acc.live += 1
    acc.add(rank, v, "crafted:" + o)
    for k in (1, 2):
        v, o = held_back_case(m, "crafted", k)
        acc.live += 1
        acc.add(rank, v, "crafted:" + o)
    for k in (0, 1):
        v, o = stale_case(m, "crafted", k)
        acc.live += 1
        acc.add(rank, v, "crafted:" + o)
    for v, o in split_case(m, "crafted"):
        acc.live += ":live:" in o or (v is not None and v["signature"].startswith("live_"))
        acc.add(rank, v, "crafted:" + o)
    acc.calls = CALLS - c0
    return acc.pack()


def baseline(ctx):
    """Sanity: the undamaged material is decoded as the reference framer says."""
    tail = ST["tail"][:14]
    bad = []
    new_codec()
    for name, f, _q in ST["corpus"]:
        r = call(f)
        s = f.find(b"8=")
        if r[0] != "ok" or r[1] is None or r[2] != len(f) or r[3] != f[s:]:
            bad.append(("corpus:" + name, f))
    for label, chunks in (("one_buffer", [b"".join(tail)]), ("chunked", tail)):
        buf = b""
        got = []
        for ch in chunks:
            buf += ch
            for _ in range(len(buf) + 2):
                r = call(buf)
                if r[0] != "ok" or not isinstance(r[2], int):
                    break
                if r[2] > 0:
                    buf = buf[r[2]:]
                if r[1] is None:
                    break
                got.append(r[3])
        if got != tail or buf:
            bad.append(("tail:" + label, b"".join(tail)))
    v, o = live_case(ST["crafted"][0][1], "crafted")
    if v is not None or not o.startswith("live_ok:nogap"):
        bad.append(("live_valid:" + (v["signature"] if v else o), ST["crafted"][0][1]))
    for fn, label in ((held_back_case, "held"), (stale_case, "stale")):
        v, o = fn(ST["crafted"][0][1], "crafted", 1)
        if v is not None or not o.endswith(("held:ok", "stale:ok:buffer_empty")):
            bad.append(("live_valid_%s:%s" % (label, v["signature"] if v else o), ST["crafted"][0][1]))
    ctx.count(states=len(ST["corpus"]) + 5, traces=len(ST["corpus"]) + 5)
    for what, data in bad:
        ctx.violation("baseline|valid_stream_not_decoded:" + what.split(":")[0], CLAUSE["baseline"],
                      {"what": what, "input": data[:400]},
                      {"mode": "baseline", "S": ST["S"], "T": ST["T"], "root": ST["root"]})
    return not bad


def run(ctx):
    global CALLS
    setup(ctx.seed)
    lmax = 4 if ctx.quick else 5
    toks = ST["tokens"]
    corpus = ST["corpus"]
    ctx.rule = ("(a) every string of <= %d grammar tokens out of %d; (b) every 1-byte substitution/deletion/insertion "
                "at every position of each corpus frame; (c) a table of grammar-aware malformed frames and every "
                "truncation/head cut of a frame, defects inside an open group, well-framed session-level malformed "
                "messages. Each input on one Codec instance: decode alone, 3 valid probe frames after it, repeated decode of input+2 valid frames in "
                "one buffer, and the read-loop buffer discipline with valid frames arriving one read each; table "
                "inputs and edits (quick: 8 byte values, thorough: all) also on a live World1 acceptor followed by "
                ">=1200 valid bytes. non-trivial = input whose first frame candidate has a start marker and >= 3 "
                "fields (reaches the header checks)" % (lmax, len(toks)))
    c0 = CALLS
    baseline(ctx)

    # (a) token strings: short ones first (exact), then one batch per 2-token prefix
    items_a = [((), lmax, True)]
    items_a += [((i,), lmax, True) for i in range(len(toks))]
    items_a += [((i, j), lmax, True) for i in range(len(toks)) for j in range(len(toks))]
    items_a += [((i, j), lmax, False) for i in range(len(toks)) for j in range(len(toks))]
    # (b) edits
    live_values = frozenset(QUICK_LIVE_VALUES) if ctx.quick else None
    items_b = []
    for ci, (name, f, q) in enumerate(corpus):
        if ctx.quick and not q:
            continue
        for pos in range(len(f) + 1):
            items_b.append((ci, pos, live_values))
    # (c) crafted
    items_c = list(range(len(ST["crafted"])))

    res_a = ctx.pmap(_work_tokens, items_a, chunk=4)
    res_c = ctx.pmap(_work_crafted, items_c, chunk=16)
    res_b = ctx.pmap(_work_edits, items_b, chunk=2)

    allv = []
    n_cases = n_live = n_calls = n_nontriv = 0
    per = {}
    for label, res in (("tokens", res_a), ("crafted", res_c), ("edits", res_b)):
        cs = 0
        for r in res:
            cs += r["cases"]
            n_live += r["live"]
            n_calls += r["calls"]
            n_nontriv += r["nontriv"]
            ctx.outcomes.update(r["out"])
            for rank, v, c in r["v"]:
                v = dict(v)
                v["count"] = c
                allv.append((rank, v))
        per[label] = cs
        n_cases += cs
    allv.sort(key=lambda x: x[0])
    ctx.merge_violations([v for _r, v in allv])
    n_calls += CALLS - c0
    ctx.count(states=n_cases, transitions=n_calls + n_live, traces=n_cases + n_live, evaluations=n_calls,
              nontrivial=n_nontriv, live_runs=n_live, decode_calls=n_calls)
    ctx.bounds = {"tokens": len(toks), "max_token_string": lmax, "token_strings": per["tokens"],
                  "corpus_frames": [(n, len(f)) for n, f, q in corpus if q or not ctx.quick],
                  "single_byte_edits": per["edits"], "crafted_inputs": per["crafted"],
                  "live_edit_values": "all 256" if live_values is None else sorted(live_values),
                  "live_valid_bytes_after_input": ">= %d (+ declared BodyLength)" % LIVE_MIN_TAIL,
                  "declared_bodylength_cap_for_progress": NEED_CAP}
    ctx.assumptions += [
        "corpus and valid traffic are produced by the independent encoder mc.refs (FIX 4.4 framing rules)",
        "each read of the live loop returns exactly one fed chunk; the malformed input arrives as one read",
        "frames lost as collateral of a resync, whole-buffer discards and a disconnect decided by the session "
        "layer are unconstrained; only permanent blocking is reported",
        "CheckSum is consistent only when it is spelled as exactly three digits equal to the byte sum",
        "the scripted live peer numbers consecutively (the garbled frame used its number) and answers a "
        "ResendRequest with a gap fill, as a conforming counterparty would",
    ]
    for name, f, q in corpus[:2]:
        ctx.sample({"corpus": name, "bytes": f})
    ctx.sample({"token_string": [toks[i] for i in (0, 9, 2)]})
    for i in (1, 12, 60):
        ctx.sample({"crafted": ST["crafted"][i][0], "bytes": ST["crafted"][i][1][:80]})


def replay(ctx, rep):
    setup(S=rep.get("S"), T=rep.get("T"), root=rep.get("root"))
    mode = rep.get("mode")
    if mode == "baseline":
        ok = baseline(ctx)
        return [] if ok else list(ctx.violations.values())
    m = rep["input"]
    if isinstance(m, str):
        m = m.encode("latin-1")
    if mode == "sim":
        v, _o = sim_case(m, rep["kind"])
    elif mode == "live":
        v, _o = live_case(m, rep["kind"])
    elif mode == "held":
        v, _o = held_back_case(m, rep["kind"], rep["k"])
    elif mode == "stale":
        v, _o = stale_case(m, rep["kind"], rep["k"])
    elif mode == "split":
        out = split_case(m, rep["kind"], only=(rep["stage"], rep["cut"]))
        return [v for v, _o in out if v]
    else:
        raise HarnessError("unknown replay mode %r" % (mode,))
    return [v] if v else []
