"""C17 - an order object (FIXNewOrderSingle) converges to the exchange's view.

Explorer: BFS over every interleaving of
  * client actions on the REAL order object (new / cancel / replace price / replace qty up, down,
    to <= filled - whenever the order says it can; consume next report),
  * actions of an independent exchange model R8 that follows the FIX 4.4 order state change matrices
    (receive next request; pending-new, ack, reject; partial / full fill; pending-cancel /
    pending-replace ack; canceled; replaced; cancel-reject; unsolicited cancel; expire; suspend; resume),
connected by two FIFO channels (requests client->exchange, reports exchange->client).  The real order
object is deep-copied per child; states are merged on a canonical key (order attributes + exchange
state + both channels + harness bookkeeping).  A path is cut at its first violating state.

The exchange model builds its execution reports / cancel rejects itself (asyncfix.fix_tester is NOT used).
"""
import copy
import enum
import hashlib
import re
from collections import deque, namedtuple
from decimal import Decimal

from asyncfix import FIXMessage
from asyncfix.protocol.common import FOrdStatus
from asyncfix.protocol.order_single import FIXNewOrderSingle

# --------------------------------------------------------------------------- bounds / pools
ROOTS = [
    ("r", "plain"),
    ("a--b", "inner_dashes"),
    ("x--", "trailing_dashes"),
    ("--1x", "leading_dashes_digit"),
    ("a-1", "dash_digit"),
    ("x--5\nrest", "root_with_newline"),
]
# roots of the long-chain phase: contain "--" and digits, but do not END in the chaining suffix "--<n>"
# (roots ending in "--<n>" are outside the property's quantifier: the library reads them as root + counter)
CHAIN_ROOTS = [
    ("ab--7z", "inner_dashes_digit"),
    ("x--10--y", "inner_chain_suffix"),
]
ALL_ROOTS = ROOTS + CHAIN_ROOTS
# name, initial qty, fill unit
CFGS = [("lots", 2.0, 1.0), ("frac", 1.0, 0.5),
        # same as "lots", but a Replaced report carries OrderQty / Price only when the replace changed them
        # (both are optional in an ExecutionReport; the library's own comments allow their absence)
        ("lots_sparse_replaced", 2.0, 1.0),
        # values python prints with an exponent (< 1e-4 with more than 8 decimals, >= 1e16): the exchange books
        # what is ON THE WIRE (tags 44 / 38 of the request, parsed), so a lossy literal shows as a divergence
        ("exp_values", 1.2345678901e-05, 1.2345678901e-05 / 2,
         {"px": 1.23456789e-05, "rep_px": (3.3e16, 1.23456789e-05)})]
# configurations explored only by the phases that name them
SPECIAL_CFGS = (3,)
# presentation only (rotated by VERIF_SEED)
PRES = [
    {"px": 100.0, "ticker": "MSFT", "side": "1", "acct": "A1"},
    {"px": 101.5, "ticker": "US.F.TICKER", "side": "2", "acct": "000000"},
    {"px": 99.25, "ticker": "EURUSD", "side": "1", "acct": "ACC-7"},
    {"px": 250.0, "ticker": "X", "side": "2", "acct": "Z"},
]
# phases: max_inflight = bound on reports in flight (None = unbounded); max_req = cancel/replace requests
TIERS = {
    "quick": [
        {"name": "wide", "depth": 12, "max_req": 2, "max_inflight": None},
        {"name": "deep", "depth": 18, "max_req": 3, "max_inflight": 3},
        {"name": "chain", "kind": "chain", "prefix": 3, "ids": 13, "cfgs": (0,)},
        {"name": "exp_values", "depth": 13, "max_req": 2, "max_inflight": 2, "cfgs": (3,), "roots": (0,)},
    ],
    "thorough": [
        {"name": "wide", "depth": 16, "max_req": 2, "max_inflight": None},
        {"name": "deep4", "depth": 22, "max_req": 3, "max_inflight": 4},
        {"name": "deep", "depth": 26, "max_req": 4, "max_inflight": 3},
        {"name": "chain", "kind": "chain", "prefix": 4, "ids": 14, "cfgs": (0, 1)},
        {"name": "exp_values", "depth": 18, "max_req": 3, "max_inflight": 3, "cfgs": (3,), "roots": (0, 1)},
    ],
}

SEND_EVENTS = ("c:cancel", "c:rep_px", "c:rep_up", "c:rep_dn", "c:rep_lo")
# simplest first
OTHER_EVENTS = (
    "c:new", "x:recv", "x:ack", "c:consume", "x:fill1", "x:accept", "x:reject", "x:pack",
    "x:pnew", "x:rej", "x:fillall", "x:ucancel", "x:expire", "x:suspend", "x:resume",
)

CLAUSES = {
    "converge": "once everything in flight has been processed its status, filled and remaining quantity, "
                "price and quantity equal the exchange's",
    "finished": "an order the exchange has finished is reported finished and refuses further requests",
    "builder": "whenever the order says it can be cancelled or replaced, building that request succeeds",
    "fresh": "the request uses a ClOrdID never used before",
    "root": "the request uses a ClOrdID with the same root",
    "orig": "the request refers to the ClOrdID under which the order is currently live at the exchange",
    "one_outstanding": "at most one request is outstanding at a time",
    "status_enum": "the status is always a member of the status enum",
    "wire": "all positive quantities and prices: Price (44) / OrderQty (38) of a request are FIX number literals "
            "(digits with an optional decimal point), which is what the exchange books",
}

# --------------------------------------------------------------------------- exchange model R8
# status codes (FIX OrdStatus): A pending new, 0 new, 1 partially filled, 2 filled, 4 canceled,
# 8 rejected, C expired, 9 suspended; 6 pending cancel, E pending replace (only reported, by precedence)
PREC = {"6": 11, "E": 10, "3": 9, "B": 8, "2": 7, "7": 6, "9": 5, "4": 4, "C": 3, "1": 2, "0": 2, "8": 2,
        "A": 2, "D": 1}
FINISHED = ("2", "4", "8", "C")
LIVE = ("0", "1", "9")

# status None = nothing received yet; pend = None | (kind, clord, orig, new_px, new_qty, acked)
Ex = namedtuple("Ex", "status pn qty cum px live pend")
EX0 = Ex(None, False, 0.0, 0.0, 0.0, None, None)

# harness bookkeeping (all derived from the history, part of the state key)
Hs = namedtuple("Hs", "sent_new n_req open_req used last_reject repl_susp")
HS0 = Hs(False, 0, None, (), None, False)


def reported_status(e):
    """OrdStatus of a report = highest precedence of {pending request if acked, real status}."""
    c = [e.status]
    if e.pend is not None and e.pend[5]:
        c.append("6" if e.pend[0] == "F" else "E")
    return max(c, key=PREC.__getitem__)


def num(x):
    """Float as FIX number literal (positional notation, lossless)."""
    r = repr(float(x))
    return format(Decimal(r), "f") if ("e" in r or "E" in r) else r


FIX_NUM = re.compile(r"-?(\d+(\.\d*)?|\.\d+)\Z")


def wire_check(ev, px, qty):
    bad = {t: val for t, val in (("44", px), ("38", qty)) if val is not None and not FIX_NUM.match(val)}
    return [("wire", {"event": ev, "observed": bad, "expected": "digits with an optional decimal point"})] if bad else []


def leaves_of(e):
    return 0.0 if e.status in FINISHED else e.qty - e.cum


def exec_report(e, env, exectype, clord, orig=None, last=None, ordstatus=None, answers=None, omit=()):
    """Execution report as a hashable (msgtype, ((tag, value), ...), answers) record."""
    t = [(11, clord)]
    if orig is not None:
        t.append((41, orig))
    t += [(37, "X1"), (150, exectype), (39, ordstatus if ordstatus is not None else reported_status(e)),
          (55, env["ticker"]), (54, env["side"]), (38, num(e.qty)), (44, num(e.px))]
    if last is not None:
        t += [(32, num(last)), (31, num(e.px))]
    t += [(151, num(leaves_of(e))), (14, num(e.cum)), (6, num(e.px if e.cum > 0 else 0.0))]
    if omit:
        t = [x for x in t if x[0] not in omit]
    return ("8", tuple(t), answers)


def cancel_reject(e, clord, orig, kind, ordstatus, order_id="X1"):
    t = ((37, order_id), (11, clord), (41, orig), (39, ordstatus), (434, "1" if kind == "F" else "2"),
         (102, "0"))
    return ("9", t, clord)


def replace_acceptable(e):
    kind, _c, _o, _px, nqty, _a = e.pend
    if kind != "G":
        return False
    if e.status == "9":
        # A replace ACCEPTED while the order is suspended (Replaced + OrdStatus=Suspended) is not in the FIX 4.4
        # matrices and tests/test_protocol_order_single.py pins that cell as an error: the exchange of this model
        # answers such a request only after resuming (or rejects it) - unconstrained rather than demanded.
        return False
    if e.status in LIVE:
        return True
    # C.1.c: a filled order takes a replace only if it increases the quantity
    return e.status == "2" and nqty is not None and nqty > e.qty


def exch_enabled(e, unit):
    """Spontaneous actions of the exchange in state e (names only)."""
    out = set()
    if e.status is None:
        return out
    if e.status == "A":
        out.update(("x:ack", "x:rej"))
        if not e.pn:
            out.add("x:pnew")
    if e.status in ("0", "1"):
        out.add("x:fill1")
        if e.qty - e.cum > unit:
            out.add("x:fillall")
        out.update(("x:expire", "x:suspend"))
    if e.status in LIVE:
        out.add("x:ucancel")
    if e.status == "9":
        out.add("x:resume")
    if e.pend is not None:
        out.add("x:reject")
        kind, acked = e.pend[0], e.pend[5]
        if kind == "F" and e.status in LIVE:
            out.add("x:accept")
        if kind == "G" and replace_acceptable(e):
            out.add("x:accept")
        if not acked and (e.status in LIVE or (kind == "G" and replace_acceptable(e))):
            out.add("x:pack")
    return out


def exch_act(e, ev, env):
    """Apply a spontaneous exchange action; returns (new e, report)."""
    unit = env["unit"]
    if ev == "x:pnew":
        e = e._replace(pn=True)
        return e, exec_report(e, env, "A", e.live)
    if ev == "x:ack":
        e = e._replace(status="0")
        return e, exec_report(e, env, "0", e.live)
    if ev == "x:rej":
        e = e._replace(status="8")
        return e, exec_report(e, env, "8", e.live)
    if ev in ("x:fill1", "x:fillall"):
        rem = e.qty - e.cum
        x = rem if ev == "x:fillall" else min(unit, rem)
        cum = e.cum + x
        e = e._replace(cum=cum, status="2" if cum >= e.qty else "1")
        return e, exec_report(e, env, "F", e.live, last=x)
    if ev == "x:ucancel":
        e = e._replace(status="4")
        return e, exec_report(e, env, "4", e.live)
    if ev == "x:expire":
        e = e._replace(status="C")
        return e, exec_report(e, env, "C", e.live)
    if ev == "x:suspend":
        e = e._replace(status="9")
        return e, exec_report(e, env, "9", e.live)
    if ev == "x:resume":
        e = e._replace(status="1" if e.cum > 0 else "0")
        return e, exec_report(e, env, "D", e.live)
    kind, clord, orig, npx, nqty, acked = e.pend
    if ev == "x:pack":
        e = e._replace(pend=(kind, clord, orig, npx, nqty, True))
        return e, exec_report(e, env, "6" if kind == "F" else "E", clord, orig=orig)
    if ev == "x:reject":
        e = e._replace(pend=None)
        return e, cancel_reject(e, clord, orig, kind, e.status)
    if ev == "x:accept":
        if kind == "F":
            e = e._replace(status="4", live=clord, pend=None)
            return e, exec_report(e, env, "4", clord, orig=orig, answers=clord)
        px = e.px if npx is None else npx
        qty = e.qty if nqty is None else max(nqty, e.cum)  # C.2.c/d: amended to CumQty
        if qty <= e.cum:
            st = "2"
        elif e.status == "9":
            st = "9"
        else:
            st = "1" if e.cum > 0 else "0"
        omit = ()
        if env.get("sparse"):
            omit = tuple(t for t, unchanged in ((38, nqty is None or qty == e.qty), (44, npx is None or px == e.px))
                         if unchanged)
        e = e._replace(status=st, qty=qty, px=px, live=clord, pend=None)
        return e, exec_report(e, env, "5", clord, orig=orig, answers=clord, omit=omit)
    raise AssertionError(ev)


def exch_recv(e, rq):
    """The exchange consumes the next request; returns (new e, report or None)."""
    kind, clord, orig, px, qty = rq
    fpx = None if px is None else float(px)
    fqty = None if qty is None else float(qty)
    if kind == "D":
        return Ex("A", False, fqty, 0.0, fpx, clord, None), None
    if e.status is None or orig != e.live:
        # B.1.f unknown order
        return e, cancel_reject(e, clord, orig, kind, "8", order_id="NONE")
    if kind == "F":
        fpx = None
    cand = e._replace(pend=(kind, clord, orig, fpx, fqty, False))
    if e.status in FINISHED and not (kind == "G" and replace_acceptable(cand)):
        # too late
        return e, cancel_reject(e, clord, orig, kind, e.status)
    return cand, None


# --------------------------------------------------------------------------- explored state
class Node:
    __slots__ = ("o", "e", "req", "rep", "h", "ann", "depth", "key", "sends")

    def __init__(self, o, e, req, rep, h, ann, depth):
        self.o, self.e, self.req, self.rep, self.h, self.ann, self.depth = o, e, req, rep, h, ann, depth
        self.key = None
        self.sends = ()


_ATOMS = (str, int, float, bool, type(None), bytes, enum.Enum)


def clone(o):
    """Deep copy of the order object (atoms shared, anything else deep-copied)."""
    c = copy.copy(o)
    d = c.__dict__
    for k, val in d.items():
        if not isinstance(val, _ATOMS):
            d[k] = copy.deepcopy(val)
    return c


def okey(o):
    return tuple(sorted((k, repr(v)) for k, v in vars(o).items()))


def nkey(n):
    return (okey(n.o), n.e, n.req, n.rep, n.h)


def initial(env):
    o = FIXNewOrderSingle(env["root"], env["ticker"], env["side"], env["px"], env["qty"], account=env["acct"])
    return Node(o, EX0, (), (), HS0, None, 0)


def sval(x):
    try:
        return str(x)
    except Exception as ex:  # pragma: no cover
        return f"<str() raised {type(ex).__name__}>"


def exc(ex):
    return f"{type(ex).__name__}: {ex}"[:200]


def rep_target(o, ev, env):
    """(price, qty) argument of replace_req for a replace flavour, or None if it would be no change."""
    unit = env["unit"]
    if ev == "c:rep_px":
        for val in env.get("rep_px") or ():
            if val != o.price:
                return (val, float("nan"))
        return (o.price + 1.0, float("nan"))
    if ev == "c:rep_up":
        return (float("nan"), o.qty + unit)
    if ev == "c:rep_dn":
        q = o.qty - unit
        return (float("nan"), q) if q > 0 and q != unit / 2 else None
    if ev == "c:rep_lo":
        q = unit / 2
        return (float("nan"), q) if q != o.qty else None
    raise AssertionError(ev)


def good_id(root, cid):
    pre = root + "--"
    if not isinstance(cid, str) or not cid.startswith(pre):
        return False
    tail = cid[len(pre):]
    return tail.isascii() and tail.isdigit()


def can_probe(n):
    """(can_cancel(), can_replace()) asked on a copy; an exception object stands for a raise."""
    o = clone(n.o)
    out = []
    for f in (o.can_cancel, o.can_replace):
        try:
            out.append(bool(f()))
        except Exception as ex:
            out.append(ex)
    return out


def send_probe(n, ev, env, cans):
    """Client tries a cancel / replace on a copy of the order.

    Returns None when the order says it cannot (or the flavour is void), else (child or None, violations).
    """
    v = []
    is_cancel = ev == "c:cancel"
    what = "can_cancel" if is_cancel else "can_replace"
    can = cans[0] if is_cancel else cans[1]
    if isinstance(can, Exception):
        return None, [("builder", {"event": ev, "observed": f"{what}() raised {exc(can)}"})]
    if not can:
        return None
    o = clone(n.o)
    if is_cancel:
        args = ()
    else:
        try:
            args = rep_target(o, ev, env)
        except Exception as ex:
            return None, [("builder", {"event": ev, "observed": f"price/qty unusable: {exc(ex)}"})]
        if args is None:
            return None
    try:
        m = o.cancel_req() if is_cancel else o.replace_req(*args)
    except Exception as ex:
        return None, [("builder", {"event": ev, "args": repr(args), "observed": f"{what}() is true but the "
                       f"builder raised {exc(ex)}", "order_status": sval(n.o.status),
                       "clord_id": n.o.clord_id, "orig_clord_id": n.o.orig_clord_id})]
    kind = "F" if is_cancel else "G"
    try:
        mt = str(m.msg_type)
        cid = m.get(11, None)
        oid = m.get(41, None)
        px = m.get(44, None)
        qty = m.get(38, None)
    except Exception as ex:
        return None, [("builder", {"event": ev, "observed": f"request unreadable: {exc(ex)}"})]
    if mt != kind:
        v.append(("builder", {"event": ev, "observed": f"message type {mt!r}", "expected": kind}))
    if kind in ("G", "F"):
        v += wire_check(ev, px, qty)
    if cid is None or cid in n.h.used:
        v.append(("fresh", {"event": ev, "observed": cid, "used_before": list(n.h.used)}))
    if not good_id(env["root"], cid):
        v.append(("root", {"event": ev, "observed": cid, "expected": env["root"] + "--<n>", "root": env["root"]}))
    if oid != n.e.live:
        v.append(("orig", {"event": ev, "observed": oid, "live_at_exchange": n.e.live}))
    if n.h.open_req is not None:
        v.append(("one_outstanding", {"event": ev, "observed": f"request {cid!r} built while {n.h.open_req!r} "
                  "is unanswered"}))
    if v:
        return None, v
    h = n.h._replace(n_req=n.h.n_req + 1, open_req=cid, used=n.h.used + (cid,))
    child = Node(o, n.e, n.req + ((kind, cid, oid, px, qty),), n.rep, h, n.ann, n.depth + 1)
    return child, v


def step(n, ev, env):
    """Apply a non-send event. Returns None if not enabled, else (child, violations)."""
    if ev == "c:new":
        if n.h.sent_new:
            return None
        o = clone(n.o)
        try:
            m = o.new_req()
            cid, px, qty = m.get(11), m.get(44), m.get(38)
        except Exception as ex:
            return None, [("builder", {"event": ev, "observed": f"new_req() on a just created order raised {exc(ex)}"})]
        h = n.h._replace(sent_new=True, used=n.h.used + (cid,))
        w = wire_check(ev, px, qty)
        if w:
            return None, w
        return Node(o, n.e, n.req + (("D", cid, None, px, qty),), n.rep, h, n.ann, n.depth + 1), []
    if ev == "c:consume":
        if not n.rep:
            return None
        mt, tags, answers = n.rep[0]
        d = dict(tags)
        if mt == "8":
            d[17] = f"E{n.depth}"
        o = clone(n.o)
        before = sval(o.status)
        v = []
        try:
            msg = FIXMessage(mt, d)
            if mt == "8":
                o.process_execution_report(msg)
            else:
                o.process_cancel_rej_report(msg)
        except Exception as ex:
            v.append(("converge", {"field": "raises", "observed": f"processing the report raised {exc(ex)}",
                                   "report": [mt, d]}))
        h = n.h
        if answers is not None and answers == h.open_req:
            h = h._replace(open_req=None)
        if mt == "9":
            h = h._replace(last_reject="cancel" if d[434] == "1" else "replace")
        if mt == "8" and d[150] == "5" and d[39] == "9":
            h = h._replace(repl_susp=True)
        last_answer = n.ann[4] if n.ann else None
        if answers is not None and mt == "8":
            last_answer = "replaced" if d[150] == "5" else "canceled"
        ann = (before, mt, d.get(150, "-"), d[39], last_answer)
        return Node(o, n.e, n.req, n.rep[1:], h, ann, n.depth + 1), v
    if ev == "x:recv":
        if not n.req:
            return None
        e, r = exch_recv(n.e, n.req[0])
        rep = n.rep if r is None else n.rep + (r,)
        return Node(n.o, e, n.req[1:], rep, n.h, n.ann, n.depth + 1), []
    # spontaneous exchange actions (each puts one report in flight)
    if len(n.rep) >= env["max_inflight"] or ev not in exch_enabled(n.e, env["unit"]):
        return None
    e, r = exch_act(n.e, ev, env)
    return Node(n.o, e, n.req, n.rep + (r,), n.h, n.ann, n.depth + 1), []


def quiescent(n):
    e = n.e
    return (not n.req and not n.rep and e.status is not None and e.pend is None
            and (e.status != "A" or e.pn))


def assess(n, env):
    """Judge a state: every-state clauses, send probes, quiescent clauses.

    Returns (violations [(clause id, detail)], send children [(ev, child)]).
    """
    v = []
    o = n.o
    if not isinstance(o.status, FOrdStatus):
        v.append(("status_enum", {"observed": f"{type(o.status).__name__} {o.status!r}",
                                  "expected": "FOrdStatus member"}))
    sends = []
    cans = can_probe(n)
    for ev in SEND_EVENTS:
        r = send_probe(n, ev, env, cans)
        if r is None:
            continue
        child, vv = r
        v += vv
        if child is not None:
            sends.append((ev, child))
    if quiescent(n):
        e = n.e
        obs = {"status": sval(o.status), "cum_qty": o.cum_qty, "leaves_qty": o.leaves_qty,
               "price": o.price, "qty": o.qty}
        exp = {"status": e.status, "cum_qty": e.cum, "leaves_qty": leaves_of(e), "price": e.px, "qty": e.qty}
        bad = [f for f in ("status", "cum_qty", "leaves_qty", "price", "qty") if obs[f] != exp[f]]
        if bad:
            v.append(("converge", {"field": bad[0], "fields": bad, "observed": obs, "exchange": exp}))
        fin_e = e.status in FINISHED
        try:
            fin_o = bool(o.is_finished())
        except Exception as ex:
            fin_o = f"is_finished() raised {exc(ex)}"
        if fin_o != fin_e:
            v.append(("finished", {"what": "is_finished", "observed": fin_o, "exchange_finished": fin_e,
                                   "exchange_status": e.status}))
        if fin_e:
            for name, call in (("cancel", lambda x: x.cancel_req()),
                               ("replace", lambda x: x.replace_req(x.price + 1.0, float("nan"))),
                               ("new", lambda x: x.new_req())):
                o2 = clone(o)
                try:
                    if name != "new":
                        can = o2.can_cancel() if name == "cancel" else o2.can_replace()
                        if can:
                            v.append(("finished", {"what": f"can_{name}", "observed": True,
                                                   "exchange_status": e.status}))
                            continue
                    call(o2)
                    v.append(("finished", {"what": f"{name}_req", "observed": "a request was built",
                                           "exchange_status": e.status}))
                except Exception:
                    pass  # refused
    return v, sends


# --------------------------------------------------------------------------- classification
def cause_class(n, clause, detail, env):
    shape = env["shape"]
    if clause in ("root", "fresh") and "\n" in env["root"]:
        return "root_with_newline"
    if clause in ("root", "fresh") and len(n.h.used) >= 9:
        return "two_digit_counter"  # the order has already drawn nine or more ClOrdIDs
    if clause == "root":
        return "root_shape:" + shape
    if env["cfg"] == "exp_values" and (clause == "wire" or (clause == "converge" and detail.get("field") in
                                                          ("cum_qty", "leaves_qty", "price", "qty"))):
        return "value_printed_with_exponent"
    if n.h.last_reject:
        return f"after_{n.h.last_reject}_reject"
    if n.h.repl_susp:
        return "replaced_while_suspended"
    if n.ann is None:
        return "before_any_report"
    before, mt, et, st, last_answer = n.ann
    if clause == "converge" and detail.get("field") in ("cum_qty", "leaves_qty", "price", "qty"):
        # quantities: the culprit is rarely the last report; class = which request was answered last
        return f"after_{last_answer}" if last_answer else "no_request_answered"
    return f"status_{before}_then_{'report' if mt == '8' else 'cxlrej'}_{et}/{st}"


def clause_id(clause, detail):
    if clause == "converge":
        return "converge:" + str(detail.get("field"))
    if clause == "finished":
        return "finished:" + str(detail.get("what"))
    return clause


def make_violation(n, path, clause, detail, env):
    sig = f"{clause_id(clause, detail)}|{cause_class(n, clause, detail, env)}"
    d = dict(detail)
    d["path"] = path
    d["order"] = {k: repr(val) for k, val in sorted(vars(n.o).items())}
    d["exchange"] = list(n.e)
    return {
        "signature": sig,
        "clause": CLAUSES[clause],
        "detail": d,
        "replay": {"root": env["root"], "cfg": env["cfg"], "pres": env["pres"], "path": path},
        "count": 1,
        "_rank": (len(path), env["item"]),
    }


# --------------------------------------------------------------------------- BFS (one worker item)
def make_env(root_i, cfg_i, pres, item=0, max_inflight=10 ** 6):
    root, shape = ALL_ROOTS[root_i]
    cname, qty, unit = CFGS[cfg_i][:3]
    env = dict(pres)
    if len(CFGS[cfg_i]) > 3:
        env.update(CFGS[cfg_i][3])
    env.update(root=root, shape=shape, cfg=cname, qty=qty, unit=unit, pres=dict(pres), item=item,
               max_inflight=max_inflight, sparse=cname.endswith("sparse_replaced"))
    return env


PARAMS = {}


def digest_key(k):
    return hashlib.blake2b(repr(k).encode("utf-8", "backslashreplace"), digest_size=12).digest()


def explore(item):
    if PARAMS["phases"][item[1]].get("kind") == "chain":
        return explore_chain(item)
    idx, phase_i, root_i, cfg_i = item
    ph = PARAMS["phases"][phase_i]
    env = make_env(root_i, cfg_i, PARAMS["pres"], idx, ph["max_inflight"] or 10 ** 6)
    max_depth, max_req = ph["depth"], ph["max_req"]
    root = initial(env)
    root.key = digest_key(nkey(root))
    parent = {root.key: None}
    viols = {}
    stats = {"states": 1, "transitions": 0, "real_calls": 0, "quiescent": 0, "violating_states": 0,
             "frontier_cut": 0, "req_cap_probes": 0, "max_depth_seen": 0}
    outcomes = set()
    nontrivial = set()
    sample = [None]

    def path_of(key):
        p = []
        while parent[key] is not None:
            key, ev = parent[key]
            p.append(ev)
        return p[::-1]

    def record(n, p, v):
        stats["violating_states"] += 1
        for clause, detail in v:
            x = make_violation(n, p, clause, detail, env)
            old = viols.get(x["signature"])
            if old is None:
                viols[x["signature"]] = x
            else:
                old["count"] += 1

    def admit(n):
        """Judge a new state; returns True when it is to be expanded."""
        v, sends = assess(n, env)
        stats["real_calls"] += 2 + len(sends)
        if quiescent(n):
            stats["quiescent"] += 1
            oc = (sval(n.o.status), n.e.status, n.h.n_req)
            outcomes.add(oc)
            if n.h.n_req:
                nontrivial.add(digest_key((okey(n.o), n.e)))
            if n.h.n_req == max_req and not v and (sample[0] is None or n.depth > sample[0][0]):
                sample[0] = (n.depth, n.key, oc)
        if v:
            record(n, path_of(n.key), v)
            return False
        n.sends = sends
        return True

    q = deque()
    if admit(root):
        q.append(root)
    while q:
        n = q.popleft()
        children = []
        if n.h.n_req < max_req:
            children += n.sends
        elif n.sends:
            stats["req_cap_probes"] += len(n.sends)
        n.sends = ()
        for ev in OTHER_EVENTS:
            r = step(n, ev, env)
            if r is None:
                continue
            child, v = r
            stats["transitions"] += 1
            if ev[0] == "c":
                stats["real_calls"] += 1
            if child is None or v:
                # the event itself failed on the real code: attribute it to a pseudo state
                if child is None:
                    child = Node(n.o, n.e, n.req, n.rep, n.h, n.ann, n.depth + 1)
                record(child, path_of(n.key) + [ev], v)
                continue
            children.append((ev, child))
        for ev, child in children:
            if ev in SEND_EVENTS:
                stats["transitions"] += 1
            k = digest_key(nkey(child))
            if k in parent:
                continue
            child.key = k
            parent[k] = (n.key, ev)
            stats["states"] += 1
            if child.depth > stats["max_depth_seen"]:
                stats["max_depth_seen"] = child.depth
            if admit(child):
                if child.depth >= max_depth:
                    stats["frontier_cut"] += 1  # judged, not expanded
                else:
                    q.append(child)
    samples = []
    if sample[0] is not None:
        samples.append({"phase": ph["name"], "root": env["root"], "cfg": env["cfg"], "path": path_of(sample[0][1]),
                        "order_status": sample[0][2][0], "exchange_status": sample[0][2][1]})
    return {"stats": stats, "viols": list(viols.values()), "outcomes": sorted(outcomes),
            "nontrivial": len(nontrivial), "samples": samples}


# --------------------------------------------------------------------------- long ClOrdID chains
CYCLE_KINDS = ("RA", "RR", "CR", "RAf", "RRf", "CRf")
SETUP = ("c:new", "x:recv", "x:ack", "c:consume")


def cycle_events(kind, e, unit):
    """One request/answer cycle: replace+Replaced (RA), replace+reject (RR), cancel+cancel-reject (CR);
    the f flavours put a partial fill between the receipt of the request and its answer (when the order
    would stay partially filled)."""
    base = kind[:2]
    fill = kind.endswith("f") and e.status in ("0", "1") and (e.qty - e.cum) > unit
    send = "c:cancel" if base == "CR" else ("c:rep_up" if kind == "RAf" else "c:rep_px")
    ans = "x:accept" if base == "RA" else "x:reject"
    return [send, "x:recv"] + (["x:fill1"] if fill else []) + [ans, "c:consume"] + (["c:consume"] if fill else [])


def explore_chain(item):
    """Sequences of request/answer cycles on ONE order until it has drawn ph["ids"] ClOrdIDs: every sequence
    of cycle kinds of length ph["prefix"] (the first kind is fixed by the item), then, from each of them, one
    continuation per cycle kind (that kind repeated).  Every intermediate state gets the full per-state oracle."""
    idx, phase_i, root_i, cfg_i, first = item
    ph = PARAMS["phases"][phase_i]
    env = make_env(root_i, cfg_i, PARAMS["pres"], idx)
    stats = {"states": 0, "transitions": 0, "real_calls": 0, "quiescent": 0, "violating_states": 0,
             "frontier_cut": 0, "req_cap_probes": 0, "max_depth_seen": 0, "chains": 0, "max_ids": 0}
    viols = {}
    outcomes = set()
    seen = set()
    nontrivial = set()
    best = [None]

    def judge(n, path):
        """Assess a node; returns the send children or None when the state violates."""
        v, sends = assess(n, env)
        k = digest_key(nkey(n))
        if k not in seen:
            seen.add(k)
            stats["states"] += 1
        stats["real_calls"] += 2 + len(sends)
        stats["max_depth_seen"] = max(stats["max_depth_seen"], n.depth)
        if quiescent(n):
            stats["quiescent"] += 1
            outcomes.add((sval(n.o.status), n.e.status, min(n.h.n_req, 4)))
            nontrivial.add(k)
        if v:
            stats["violating_states"] += 1
            for clause, detail in v:
                x = make_violation(n, list(path), clause, detail, env)
                old = viols.get(x["signature"])
                if old is None:
                    viols[x["signature"]] = x
                else:
                    old["count"] += 1
            return None
        return dict(sends)

    def run_cycle(n, sends, path, kind):
        """Returns (node, sends, path) after the cycle, or None (violation / cycle not available)."""
        for ev in cycle_events(kind, n.e, env["unit"]):
            if ev in SEND_EVENTS:
                child = sends.get(ev)
                if child is None:
                    return None
                v = []
            else:
                r = step(n, ev, env)
                if r is None:
                    return None
                child, v = r
                if ev[0] == "c":
                    stats["real_calls"] += 1
            stats["transitions"] += 1
            path = path + [ev]
            if child is None or v:
                stats["violating_states"] += 1
                pseudo = child or Node(n.o, n.e, n.req, n.rep, n.h, n.ann, n.depth + 1)
                for clause, detail in v:
                    x = make_violation(pseudo, list(path), clause, detail, env)
                    viols.setdefault(x["signature"], x)
                return None
            n = child
            sends = judge(n, path)
            if sends is None:
                return None
        return n, sends, path

    def finish(n, path, kinds):
        stats["chains"] += 1
        ids = len(n.h.used)
        stats["max_ids"] = max(stats["max_ids"], ids)
        if best[0] is None or ids > best[0][0]:
            best[0] = (ids, kinds, list(n.h.used)[-3:], sval(n.o.status))

    def continue_with(n, sends, path, kinds, kind):
        while len(n.h.used) < ph["ids"]:
            r = run_cycle(n, sends, path, kind)
            if r is None:
                break
            n, sends, path = r
            kinds = kinds + (kind,)
        finish(n, path, kinds)

    def prefix(n, sends, path, kinds):
        if len(kinds) >= ph["prefix"]:
            for kind in CYCLE_KINDS:
                continue_with(n, sends, path, kinds, kind)
            return
        for kind in (CYCLE_KINDS if kinds else (first,)):
            r = run_cycle(n, sends, path, kind)
            if r is None:
                finish(n, path, kinds + (kind + "!",))
                continue
            prefix(r[0], r[1], r[2], kinds + (kind,))

    n = initial(env)
    path = []
    sends = judge(n, path)
    for ev in SETUP:
        if sends is None:
            break
        r = step(n, ev, env)
        if r is None or r[0] is None or r[1]:
            sends = None
            break
        n = r[0]
        path = path + [ev]
        stats["transitions"] += 1
        sends = judge(n, path)
    if sends is not None:
        prefix(n, sends, path, ())
    samples = []
    if best[0] is not None:
        samples.append({"phase": ph["name"], "root": env["root"], "cfg": env["cfg"], "cycles": list(best[0][1]),
                        "ids_drawn": best[0][0], "last_ids": best[0][2], "order_status": best[0][3]})
    return {"stats": stats, "viols": list(viols.values()), "outcomes": sorted(outcomes),
            "nontrivial": len(nontrivial), "samples": samples}


# --------------------------------------------------------------------------- entry points
def run(ctx):
    phases = TIERS[ctx.tier]
    pres = PRES[ctx.seed % len(PRES)]
    PARAMS.update(phases=phases, pres=pres)
    items = []
    for phase_i in range(len(phases)):
        if phases[phase_i].get("kind") == "chain":
            for cfg_i in phases[phase_i]["cfgs"]:
                for root_i in range(len(ROOTS), len(ALL_ROOTS)):
                    for first in CYCLE_KINDS:
                        items.append((len(items), phase_i, root_i, cfg_i, first))
            continue
        for cfg_i in phases[phase_i].get("cfgs") or [c for c in range(len(CFGS)) if c not in SPECIAL_CFGS]:
            for root_i in phases[phase_i].get("roots") or range(len(ROOTS)):
                items.append((len(items), phase_i, root_i, cfg_i))
    ctx.rule = ("BFS over all interleavings of client actions on the real FIXNewOrderSingle (new, cancel, replace "
                "price / qty up / qty down / qty below the fill unit whenever can_*() is true, consume next report) "
                "and exchange-model actions (receive request, pending-new, ack, reject, partial/full fill, pending "
                "ack, canceled, replaced, cancel-reject, unsolicited cancel, expire, suspend, resume) over two FIFO "
                "channels; states merged on (order attributes, exchange state, channels, bookkeeping); a path stops "
                "at its first violating state; one BFS per phase (wide: any number of reports in flight, shallow; "
                "deep: bounded number of reports in flight, more steps and requests) x ClOrdID root x quantity "
                "configuration; plus a long-chain phase on ONE order for roots containing '--' and digits: after "
                "new/ack, request/answer cycles {replace+Replaced, replace+reject, cancel+cancel-reject} x {plain, "
                "partial fill between request and answer}, exhaustive over all sequences of cycle kinds up to the "
                "phase's prefix length, then from each such sequence ONE representative continuation per cycle kind "
                "(that kind repeated) until the order has drawn 13 (thorough 14) ClOrdIDs, the full per-state oracle "
                "(root / freshness / OrigClOrdID / convergence) at every step; "
                "'states' adds up the distinct states of each BFS / chain item. Non-trivial = distinct "
                "quiescent (order, exchange) states reached after at least one cancel/replace request.")
    ctx.bounds = {"phases": [dict(p) for p in phases],
                  "roots": [r for r, _ in ROOTS], "chain_roots": [r for r, _ in CHAIN_ROOTS],
                  "chain_cycle_kinds": list(CYCLE_KINDS), "quantity_configs": [list(c) for c in CFGS],
                  "orders": 1}
    res = ctx.pmap(explore, items, chunk=1)
    best = {}
    for r in res:
        s = r["stats"]
        ctx.count(states=s["states"], transitions=s["transitions"], traces=s["real_calls"],
                  evaluations=s["states"], quiescent_states=s["quiescent"],
                  violating_states=s["violating_states"], states_at_depth_bound=s["frontier_cut"],
                  probes_beyond_request_cap=s["req_cap_probes"], nontrivial=r["nontrivial"],
                  chains=s.get("chains", 0))
        ctx.bounds["max_clordids_per_order"] = max(ctx.bounds.get("max_clordids_per_order", 0), s.get("max_ids", 0))
        for oc in r["outcomes"]:
            ctx.outcomes.add(tuple(oc))
        for x in r["viols"]:
            b = best.get(x["signature"])
            if b is None:
                best[x["signature"]] = x
            else:
                keep, other = (b, x) if tuple(b["_rank"]) <= tuple(x["_rank"]) else (x, b)
                keep["count"] += other["count"]
                best[x["signature"]] = keep
    # a few real cases: deepest clean quiescent state with all requests used, different roots / phases
    bfs = [r for r in res if r["samples"] and "path" in r["samples"][0]]
    for r in sorted(bfs, key=lambda r: -len(r["samples"][0]["path"]))[:4]:
        ctx.sample(r["samples"][0])
    chains = [r for r in res if r["samples"] and "cycles" in r["samples"][0]]
    for r in sorted(chains, key=lambda r: -r["samples"][0]["ids_drawn"])[:2]:
        ctx.sample(r["samples"][0])
    out = []
    for sig in sorted(best):
        x = dict(best[sig])
        x.pop("_rank", None)
        out.append(x)
    ctx.merge_violations(out)
    ctx.bounds["max_depth_reached"] = max(r["stats"]["max_depth_seen"] for r in res)
    ctx.assumptions += [
        "one order; both channels FIFO and lossless; the exchange answers every request eventually",
        "exchange model R8: PendingNew optional, then New or Rejected; fills only while new / partially filled; "
        "OrdStatus of every report = highest FIX precedence of {acked pending request, real status}; "
        "LeavesQty = 0 for filled/canceled/rejected/expired else OrderQty-CumQty; replace sets OrderQty = "
        "max(requested, CumQty); a filled order takes a replace only when it increases the quantity; "
        "unsolicited cancel from new/partially filled/suspended; expiry and suspension only from "
        "new/partially filled; no fills while suspended",
        "convergence is judged only at quiescent states: both channels empty, no request pending at the "
        "exchange, at least one report sent for the order",
        "the exploration stops behind a violating state (after a cancel/replace reject nothing is explored today)",
    ]
    ctx.notes.append("states at the depth bound are judged but not expanded (bounded, not capped): "
                     f"{ctx.counters.get('states_at_depth_bound', 0)} such states")


def replay(ctx, rep):
    pres = rep["pres"]
    root_i = [r for r, _ in ALL_ROOTS].index(rep["root"])
    cfg_i = [c[0] for c in CFGS].index(rep["cfg"])
    env = make_env(root_i, cfg_i, pres)
    n = initial(env)
    path = list(rep["path"])
    done = []

    def judge(n):
        v, sends = assess(n, env)
        return [make_violation(n, list(done), c, d, env) for c, d in v], dict(sends)

    out, sends = judge(n)
    for ev in path:
        if out:
            break
        if ev in SEND_EVENTS:
            child = sends.get(ev)
            if child is None:
                return []
        else:
            r = step(n, ev, env)
            if r is None:
                return []
            child, v = r
            if child is None or v:
                done.append(ev)
                if child is None:
                    child = Node(n.o, n.e, n.req, n.rep, n.h, n.ann, n.depth + 1)
                out = [make_violation(child, list(done), c, d, env) for c, d in v]
                break
        done.append(ev)
        n = child
        out, sends = judge(n)
    for x in out:
        x.pop("_rank", None)
    return out
