"""C20 (b): one initiator, two counterparties.

TesterWorld : bare AsyncFIXConnection initiator (as the fix_connection fixture of
              tests/test_connection.py) wired to FIXTester(connection=conn); the
              acceptor acts through ft.reply(<helper factory>) and the queue is
              drained with ft.process_msg_acceptor() after every step.
RealWorld   : the same initiator class with a fake socket pair to a real
              AsyncFIXDummyServer (started through its own connect() on the fake
              asyncio.start_server); the acceptor application acts through
              send_msg / send_test_req.

Both run under mc.vloop.VLoop; no virtual time passes while a script runs.
After every step the initiator is observed through public means (hooks, writer,
connection_state, journal) plus two adapters (session counters, _process_message
override to see the frames handed to the initiator).
"""
import itertools

from mc import refs
from mc.runner import HarnessError
from mc.vloop import CLOCK, VLoop, LiveLock, task_result
from mc.world import (FakeReader, FakeWriter, classes, install_net, journal_rows, num_in, num_out,
                      session_of, set_state, stored_counters, _need)

STARTS = [(1, 1), (3, 7)]  # initiator (next_num_out, next_num_in); the acceptor mirrors them
COMP_POOL = [("INITIATOR", "ACCEPTOR"), ("CLI", "SRV"), ("FIRM", "EXCH"), ("I1", "A1")]

MIDS = ["IA", "AA", "IT", "AT", "IH", "AH"]
MIDS_U = MIDS + ["IU", "AU"]  # + application message with non-ASCII text, one per side
# Latin-1 high, BMP, CJK and one astral character (utf-8: 2, 3, 3 and 4 bytes)
U_ACCOUNT = "M\u00fcller-\u00d1and\u00fa"
U_TEXT = "caf\u00e9 \u20ac5 \u6f22\u5b57 \U0001f600"
U_TICKER = "M\u00dcL.\u20ac"
ENDS = ["IO", "AO"]
# heartbeat period of the session: the initiator's heartbeat_period, HeartBtInt of its Logon and the heartbeat_period
# the real acceptor is configured with (the helper builds its simulated acceptor itself).  Every script runs with
# HB_DEFAULT; scripts up to HB_LEN_* steps also run with every other period of HB_PERIODS_*.
HB_DEFAULT = 30
HB_PERIODS_QUICK, HB_PERIODS_THOROUGH = [5, 60], [2, 5, 29, 31, 60, 3600]
HB_LEN_QUICK, HB_LEN_THOROUGH = 3, 4
# initiator: send_test_req() and, without waiting for the answer, disconnect(logout_message=...); only as the
# end of scripts of length <= 3
END_NOWAIT = "ID"
STEP_NAME = {
    "IL": "initiator_logon", "IA": "initiator_app_message", "IT": "initiator_test_request",
    "IH": "initiator_heartbeat", "IO": "initiator_logout", "AA": "acceptor_app_message",
    "AT": "acceptor_test_request", "AH": "acceptor_heartbeat", "AO": "acceptor_logout",
    "ID": "initiator_test_request_then_logout_without_waiting",
    "IU": "initiator_app_message_non_ascii", "AU": "acceptor_app_message_non_ascii",
}
MASKED = {"52", "10", "9"}
CLAUSE = ("A connection driven against the helper's simulated acceptor through a clean Logon and message exchange "
          "sees the same frames, states and counters as against a real acceptor endpoint of the library")

_INI = None


def ini_class():
    global _INI
    if _INI is None:
        _Client, _Server, Bare = classes()

        class Ini(Bare):
            """Bare AsyncFIXConnection with recording hooks + a tap on the frames handed to it."""

            def __init__(self, *a, **kw):
                self.rx = []
                Bare.__init__(self, *a, **kw)

            async def _process_message(self, msg, raw_msg):
                self.rx.append(bytes(raw_msg))
                return await Bare._process_message(self, msg, raw_msg)

        _INI = Ini
    return _INI


# -- messages (identical content in both worlds; built fresh for every send) ---

def m_logon(hb=HB_DEFAULT):
    from asyncfix import FIXMessage, FMsg
    return FIXMessage(FMsg.LOGON, {98: "0", 108: str(hb)})


def m_ini_app(i):
    from asyncfix import FIXMessage, FMsg
    return FIXMessage(FMsg.NEWORDERSINGLE, {11: f"c{i}", 55: "TICK", 54: "1", 38: "10", 40: "2", 44: "1.5",
                                            60: "20240101-00:00:00.000"})


def m_acc_app(i):
    from asyncfix import FIXMessage, FMsg
    return FIXMessage(FMsg.EXECUTIONREPORT, {37: "7", 17: f"e{i}", 150: "0", 39: "0", 55: "TICK", 54: "1",
                                             151: "10", 14: "0", 6: "0"})


def m_ini_app_u(i):
    from asyncfix import FIXMessage, FMsg
    return FIXMessage(FMsg.NEWORDERSINGLE, {11: f"u{i}", 1: U_ACCOUNT, 55: U_TICKER, 54: "1", 38: "10", 40: "2",
                                            44: "1.5", 60: "20240101-00:00:00.000", 58: U_TEXT})


def m_acc_app_u(ft, i):
    """Execution report fabricated by a helper instance (the world's own in TesterWorld, a detached one in
    RealWorld) for an order with a non-ASCII account / ticker, plus a non-ASCII Text."""
    from asyncfix.protocol.common import FExecType, FOrdStatus
    from asyncfix.protocol.order_single import FIXNewOrderSingle

    o = FIXNewOrderSingle(f"u{i}", U_TICKER, side="1", price=10.5, qty=10, account=U_ACCOUNT)
    ft.order_register_single(o)
    m = ft.fix_exec_report_msg(o, o.clord_id, FExecType.PENDING_NEW, FOrdStatus.PENDING_NEW)
    m[58] = U_TEXT
    return m


async def testreq_then_logout(c):
    from asyncfix.connection import ConnectionState

    await c.send_test_req()
    await c.disconnect(ConnectionState.DISCONNECTED_WCONN_TODAY, logout_message="bye")


def m_plain(t):
    from asyncfix import FIXMessage
    return FIXMessage(t)


class _Base:
    def call(self, coro):
        t = self.loop.create_task(coro)
        try:
            self.loop.run_ready()
        except LiveLock:
            return ("livelock", None)
        k, v = task_result(t)
        return (k, type(v).__name__ if k == "exc" else None)

    def close(self):
        self.loop.shutdown()

    def observe(self):
        c = self.c
        s = session_of(c)
        return {
            "written_frames": [canon(f) for f in self.written()],
            "received_frames": [canon(f) for f in c.rx],
            "state_sequence": list(c.states) + ["now:" + c.connection_state.name],
            "role": c.connection_role.name,
            "callbacks": [list(e) for e in c.ev],
            "deliveries": [[t, n, sorted((k, v) for k, v in d.items() if k not in MASKED)] for (t, n, d) in c.delivered],
            "counters": [num_out(c), num_in(c)],
            "stored_counters": list(stored_counters(self.j, s.target_comp_id, s.sender_comp_id) or ()),
            "journal": [[d, n, canon(m)] for (_k, d, n, m) in journal_rows(self.j)],
            "loop_errors": len(self.loop.errors),
        }


class TesterWorld(_Base):
    def __init__(self, comp, start, hb=HB_DEFAULT):
        from asyncfix import FIXTester, Journaler
        from asyncfix.connection import ConnectionState
        from asyncfix.protocol import FIXProtocol44

        CLOCK.now = CLOCK.BASE + 1.0  # RealWorld spends 1 s of virtual time settling the server
        self.loop = VLoop()
        self.loop.enter()
        ini, acc = comp
        self.j = Journaler()
        self.hb = hb
        self.c = ini_class()(FIXProtocol44(), ini, acc, self.j, "localhost", "64444", heartbeat_period=hb)
        self.j.set_seq_num(session_of(self.c), next_num_out=start[0], next_num_in=start[1])
        set_state(self.c, ConnectionState.NETWORK_CONN_ESTABLISHED)
        self.ft = FIXTester(schema=None, connection=self.c)
        self.wmock = _need(self.c, "_socket_writer")

    def written(self):
        return [bytes(c.args[0]) for c in self.wmock.write.call_args_list]

    def step(self, code, i):
        ft, c = self.ft, self.c
        if code == "IL":
            r = self.call(c.send_msg(m_logon(self.hb)))
        elif code == "IA":
            r = self.call(c.send_msg(m_ini_app(i)))
        elif code == "IT":
            r = self.call(c.send_test_req())
        elif code == "IH":
            r = self.call(c.send_msg(m_plain("0")))
        elif code == "IO":
            r = self.call(c.send_msg(m_plain("5")))
        elif code == "ID":
            r = self.call(testreq_then_logout(c))
        elif code == "IU":
            r = self.call(c.send_msg(m_ini_app_u(i)))
        elif code == "AU":
            r = self.call(ft.reply(m_acc_app_u(ft, i)))
        elif code == "AA":
            r = self.call(ft.reply(m_acc_app(i)))
        elif code == "AT":
            r = self.call(ft.reply(ft.msg_test_request(int(CLOCK.now))))
        elif code == "AH":
            r = self.call(ft.reply(ft.msg_heartbeat()))
        elif code == "AO":
            r = self.call(ft.reply(ft.msg_logout()))
        else:
            raise HarnessError(f"unknown step {code}")
        n = 0
        while ft.acceptor_rcv_que:
            self.call(ft.process_msg_acceptor())
            n += 1
            if n > 50:
                raise HarnessError("acceptor queue of the helper does not drain")
        return r


class LinkWriter(FakeWriter):
    """FakeWriter whose bytes arrive at the peer's reader.  close() closes the whole socket as a TCP transport
    does: EOF at the peer, EOF for the own pending read, and bytes the peer writes afterwards are lost."""

    def __init__(self, name, peer_reader, own_reader):
        super().__init__(name)
        self.peer_reader = peer_reader
        self.own_reader = own_reader
        self.sink = self._deliver
        self.lost = 0

    def _deliver(self, data):
        if self.peer_reader.eof:
            self.lost += 1  # the peer has closed its socket (or we have): nothing arrives
        else:
            self.peer_reader.feed(data)

    def close(self):
        first = not self.closed
        super().close()
        if first:
            self.peer_reader.feed_eof()
            self.own_reader.feed_eof()


class RealWorld(_Base):
    def __init__(self, comp, start, hb=HB_DEFAULT):
        from asyncfix import Journaler
        from asyncfix.connection import ConnectionState
        from asyncfix.protocol import FIXProtocol44

        from asyncfix import FIXTester

        _Client, Server, _Bare = classes()
        self.fab = FIXTester(schema=None)  # detached: only fabricates the acceptor application's reports
        CLOCK.now = CLOCK.BASE
        self.loop = VLoop()
        self.loop.enter()
        self.net = install_net()
        ini, acc = comp
        self.js = Journaler()
        self.s = Server(FIXProtocol44(), acc, ini, self.js, "h", 1, heartbeat_period=hb)
        self.js.set_seq_num(session_of(self.s), next_num_out=start[1], next_num_in=start[0])
        self.j = Journaler()
        self.hb = hb
        self.c = ini_class()(FIXProtocol44(), ini, acc, self.j, "localhost", "64444", heartbeat_period=hb)
        self.j.set_seq_num(session_of(self.c), next_num_out=start[0], next_num_in=start[1])
        self.c_r, self.s_r = FakeReader(), FakeReader()
        self.c_w = LinkWriter("c", self.s_r, self.c_r)
        self.s_w = LinkWriter("s", self.c_r, self.s_r)
        # acceptor: its own connect() -> fake start_server -> accept callback
        self.loop.create_task(self.s.connect())
        self.loop.run_ready()
        srv = self.net.servers.get(1)
        if srv is None:
            raise HarnessError("server did not call start_server")
        self.loop.create_task(srv.cb(self.s_r, self.s_w))
        self.loop.run_ready()
        self.loop.advance(1.0)  # the read loop polls with sleep(1) while it has no socket
        # initiator: bare connection with an established socket, tasks started by the base connect()
        self.c._socket_reader = self.c_r
        self.c._socket_writer = self.c_w
        _need(self.c, "_socket_reader")
        set_state(self.c, ConnectionState.NETWORK_CONN_ESTABLISHED)
        self.loop.create_task(self.c.connect())
        self.loop.run_ready()
        if not self.c_r.idle() or not self.s_r.idle():
            raise HarnessError("read loops are not parked on their sockets after setup")

    def written(self):
        return list(self.c_w.out)

    def step(self, code, i):
        c, s = self.c, self.s
        if code == "IL":
            return self.call(c.send_msg(m_logon(self.hb)))
        if code == "IA":
            return self.call(c.send_msg(m_ini_app(i)))
        if code == "IT":
            return self.call(c.send_test_req())
        if code == "IH":
            return self.call(c.send_msg(m_plain("0")))
        if code == "IO":
            return self.call(c.send_msg(m_plain("5")))
        if code == "ID":
            return self.call(testreq_then_logout(c))
        if code == "IU":
            return self.call(c.send_msg(m_ini_app_u(i)))
        if code == "AU":
            return self.call(s.send_msg(m_acc_app_u(self.fab, i)))
        if code == "AA":
            return self.call(s.send_msg(m_acc_app(i)))
        if code == "AT":
            return self.call(s.send_test_req())
        if code == "AH":
            return self.call(s.send_msg(m_plain("0")))
        if code == "AO":
            return self.call(s.send_msg(m_plain("5")))
        raise HarnessError(f"unknown step {code}")


def canon(frame):
    f, err = refs.try_parse(bytes(frame))
    if f is None:
        return ["UNPARSABLE:" + err, bytes(frame).decode("latin-1")]
    return [[t, v.decode("latin-1")] for t, v in f if t not in MASKED]


ORDER = ["call_result", "written_frames", "received_frames", "state_sequence", "role", "callbacks",
         "deliveries", "counters", "stored_counters", "journal", "loop_errors"]


def run_script(comp, start, script, hb=HB_DEFAULT):
    """Run one script in both worlds. Returns (first difference or None, steps executed)."""
    tw = TesterWorld(comp, start, hb)
    try:
        t_obs = []
        for i, code in enumerate(script):
            r = tw.step(code, i)
            o = tw.observe()
            o["call_result"] = list(r)
            t_obs.append(o)
    finally:
        tw.close()
    rw = RealWorld(comp, start, hb)
    try:
        r_obs = []
        for i, code in enumerate(script):
            r = rw.step(code, i)
            o = rw.observe()
            o["call_result"] = list(r)
            r_obs.append(o)
    finally:
        rw.close()
    if len(script) and not (t_obs[0]["received_frames"] and r_obs[0]["received_frames"]) \
            and t_obs[0]["call_result"][0] == "ok" and script[0] == "IL":
        raise HarnessError("the initiator was handed no frame after its Logon in one of the worlds (tap broken?)")
    for k, (a, b) in enumerate(zip(t_obs, r_obs)):
        for what in ORDER:
            if a[what] != b[what]:
                return {"step": k, "code": script[k], "what": what, "tester": a[what], "real": b[what]}, len(script)
    return None, len(script)


def _scripts(maxlen, mids):
    for n in range(2, maxlen + 1):
        for body in itertools.product(mids, repeat=n - 2):
            for e in ENDS:
                yield ["IL"] + list(body) + [e]
    for body in itertools.product(mids, repeat=maxlen - 1):
        yield ["IL"] + list(body)


def scripts(maxlen):
    """Maximal clean scripts (every prefix is compared on the way): Logon first, nothing after a Logout.
    ASCII alphabet up to maxlen; with the two non-ASCII application messages up to maxlen - 1."""
    yield ["IL", END_NOWAIT]
    for m in MIDS_U:
        yield ["IL", m, END_NOWAIT]
    for sc in _scripts(maxlen - 1, MIDS_U):
        if "IU" in sc or "AU" in sc:
            yield sc
    yield from _scripts(maxlen, MIDS)


_COMP = None


def _work(item):
    start, script, hb = item
    diff, n = run_script(_COMP, start, script, hb)
    if diff is None:
        return None
    if hb != HB_DEFAULT:
        # differential: only what the same script does not already show with the default period is attributed to the period
        d0, _n = run_script(_COMP, start, script[: diff["step"] + 1], HB_DEFAULT)
        if d0 is not None and (d0["step"], d0["what"]) == (diff["step"], diff["what"]):
            return None
    return violation(_COMP, start, script, diff, hb)


def violation(comp, start, script, diff, hb=HB_DEFAULT):
    k = diff["step"]
    sig = f"fidelity_{diff['what']}|at_{STEP_NAME[diff['code']]}"
    if hb != HB_DEFAULT:
        sig += f"|only_with_session_heartbeat_period_other_than_{HB_DEFAULT}"
    return {
        "signature": sig,
        "clause": CLAUSE,
        "detail": {"script": script[: k + 1], "start_counters": list(start), "session_heartbeat_period": hb,
                   "first_difference_at_step": k,
                   "observable": diff["what"], "against_helper": _tail(diff["tester"]), "against_real_acceptor": _tail(diff["real"])},
        "replay": {"part": "b", "comp": list(comp), "start": list(start), "script": script[: k + 1], "hb": hb},
    }


def _tail(x):
    return x[-4:] if isinstance(x, list) and len(x) > 4 else x


def run_fidelity(ctx, maxlen):
    global _COMP
    _COMP = COMP_POOL[ctx.seed % len(COMP_POOL)]
    items = [(st, sc, HB_DEFAULT) for sc in scripts(maxlen) for st in STARTS]
    hb_len = HB_LEN_QUICK if ctx.quick else HB_LEN_THOROUGH
    periods = HB_PERIODS_QUICK if ctx.quick else HB_PERIODS_THOROUGH
    hb_scripts = [["IL", END_NOWAIT]] + [["IL", m, END_NOWAIT] for m in MIDS] + list(_scripts(hb_len, MIDS))
    items += [(st, sc, hb) for hb in periods for sc in hb_scripts for st in STARTS]
    res = ctx.pmap(_work, items, chunk=8)
    steps = 0
    for (st, sc, _hb), r in zip(items, res):
        steps += 2 * len(sc)
        if r:
            ctx.merge_violations([r])
            ctx.outcomes.add(("fidelity", "differs", r["signature"]))
        else:
            ctx.outcomes.add(("fidelity", "same"))
    return {"scripts": len(items), "steps": steps, "comparisons": steps // 2 * len(ORDER),
            "hb_periods": [HB_DEFAULT] + list(periods), "hb_script_len": hb_len,
            "samples": [{"part": "b", "script": items[i][1], "start": list(items[i][0]), "hb": items[i][2]}
                        for i in (0, len(items) // 2, len(items) - 1)]}


def replay_fidelity(rep):
    comp, start, script = tuple(rep["comp"]), tuple(rep["start"]), list(rep["script"])
    hb = rep.get("hb", HB_DEFAULT)
    diff, _n = run_script(comp, start, script, hb)
    return [violation(comp, start, script, diff, hb)] if diff else []
