"""C16 - the order status transition function is total, closed and lifecycle-safe.

Explorer C over the COMPLETE finite domain of ``FIXNewOrderSingle.change_status``:

    15 statuses x {8, 9, F, G + unsupported kinds} x (17 ExecTypes + the int ``0``
    "omitted" marker) x 15 reported statuses x both error modes,

each point called on the real code under several spellings of the arguments
(enum member / plain string), and judged by the three-valued reference table R7
written below from the property text and the FIX 4.4 order state change matrices
(nothing of the library's tables is imported: the vocabulary is transcribed from
FIX 4.4 tags 39 / 150 / 35 and only *looked up by name* in the library's enums
to obtain the enum spelling of an argument).

Cell types of R7
    T  must return the reported status (when reported == current, "no change" is
       the same thing and is accepted too; an error never is)
    S  must leave the status alone: ``None``, the current status itself, or the
       order error when asked to raise
    N  must be ``None`` in both error modes (request ignored while one is pending)
    E  must be refused: order error when asked to raise, ``None`` otherwise
    U  unsupported kind: order error when asked to raise, ``None`` otherwise
    X  unconstrained (only totality / closure / error-mode are checked)
Everywhere: the call returns the reported status or ``None`` or raises FIXError,
and FIXError only when asked to raise (every kind, unsupported ones included).

Plus ``can_cancel`` / ``can_replace`` / ``is_finished`` on every status.

History pass (the result is a function of the combination, nothing else): the
complete table is called twice in one fresh process, in table order and in the
reverse order (so for every ordered pair of cells (x, y), y is asked before any x
and again after x); the same cell must give the same answer both times.
"""
import enum
import itertools
import os
import pickle

# ----------------------------------------------------------------------------
# Vocabulary, transcribed from FIX 4.4 (tag 39 OrdStatus, tag 150 ExecType) plus
# the library's documented internal "created" status.  Ordered simplest-first
# (life-cycle order) so the first kept counterexample is the earliest one.
# ----------------------------------------------------------------------------
STATUSES = [
    ("CREATED", "Z"),
    ("PENDING_NEW", "A"),
    ("NEW", "0"),
    ("PARTIALLY_FILLED", "1"),
    ("FILLED", "2"),
    ("CANCELED", "4"),
    ("REJECTED", "8"),
    ("EXPIRED", "C"),
    ("SUSPENDED", "9"),
    ("PENDING_CANCEL", "6"),
    ("PENDING_REPLACE", "E"),
    ("DONE_FOR_DAY", "3"),
    ("STOPPED", "7"),
    ("CALCULATED", "B"),
    ("ACCEPTED_FOR_BIDDING", "D"),
]
EXECTYPES = [
    ("NEW", "0"),
    ("TRADE", "F"),
    ("CANCELED", "4"),
    ("REPLACED", "5"),
    ("PENDING_CANCEL", "6"),
    ("PENDING_REPLACE", "E"),
    ("PENDING_NEW", "A"),
    ("REJECTED", "8"),
    ("EXPIRED", "C"),
    ("SUSPENDED", "9"),
    ("RESTATED", "D"),
    ("DONE_FOR_DAY", "3"),
    ("STOPPED", "7"),
    ("CALCULATED", "B"),
    ("TRADE_CORRECT", "G"),
    ("TRADE_CANCEL", "H"),
    ("ORDER_STATUS", "I"),
]
MARKER = "int0"  # canonical name of the "ExecType omitted" marker (the integer 0)

SNAME = {v: n for n, v in STATUSES}
ENAME = {v: n for n, v in EXECTYPES}
ENAME[MARKER] = "OMITTED(0)"

# message kinds (tag 35): execution report, cancel reject, cancel request,
# cancel/replace request are the four supported ones
SUPPORTED_KINDS = ["8", "9", "F", "G"]
KIND_NAME = {"8": "exec_report", "9": "cancel_reject", "F": "cancel_request", "G": "replace_request"}
UNSUPPORTED_QUICK = ["D", "zz"]
# thorough: more unsupported kinds (valid FIX types that are not order reports,
# near misses of the supported spellings, non-strings)
UNSUPPORTED_THOROUGH = ["D", "zz", "7", "0", "", "88", "f", "g", " 8", "AE", None, 8, 9]

Z, A = "Z", "A"
NEW, PART, FILLED, CANC, REJ, EXP, SUSP = "0", "1", "2", "4", "8", "C", "9"
PCXL, PREP = "6", "E"
DFD, STOPPED, CALC, AFB = "3", "7", "B", "D"

FINISHED = {FILLED, CANC, REJ, EXP}
REQUESTABLE = {NEW, PART, SUSP}
PENDING_REQ = {PCXL, PREP}
# "acknowledged" states for the clause "from an acknowledged state back to
# pending-new": everything the exchange reports after it accepted the order.
# created / pending-new are before the acknowledgement; accepted-for-bidding is
# a pre-trade bidding state and is left out (unconstrained).
ACKNOWLEDGED = {NEW, PART, FILLED, CANC, REJ, EXP, SUSP, PCXL, PREP, DFD, STOPPED, CALC}

ROW_CLASS = {Z: "created", A: "pending_new", NEW: "live", PART: "live", SUSP: "live",
             PCXL: "pending_request", PREP: "pending_request",
             FILLED: "finished", CANC: "finished", REJ: "finished", EXP: "finished",
             DFD: "other", STOPPED: "other", CALC: "other", AFB: "other"}

# ----------------------------------------------------------------------------
# R7, T cells for execution reports: (current, ExecType, reported) triples the
# exchange of C17 can cause, transcribed from the FIX 4.4 order state change
# matrices.  Reports the exchange emits, as (ExecType, OrdStatus):
#   pending new (A,A); new (0,0); rejected (8,8); trade (F,1) (F,2);
#   canceled - solicited or unsolicited - (4,4); pending cancel (6,6);
#   pending replace (E,E); replaced (5,0) (5,1) (5,2); expired (C,C);
#   suspended (9,9); resumed = restated (D,0) (D,1).
# ----------------------------------------------------------------------------
T8 = set()


def _t(cur, *reports):
    for ex, rep in reports:
        T8.add((cur, ex, rep))


# A.1.a: created -> pending new -> new; order reject
_t(Z, (A, A), (REJ, REJ))
# A.1.a / A.1.b: ack, reject, immediate (partial) fill, IOC cancel, suspend on entry
_t(A, ("0", NEW), (REJ, REJ), ("F", PART), ("F", FILLED), (CANC, CANC), (SUSP, SUSP))
# A.1.a fills; B.1.a-c pending cancel / canceled; C.1.a-c pending replace;
# unsolicited cancel; expiry; suspension
for _cur in (NEW, PART):
    _t(_cur, ("F", PART), ("F", FILLED), (CANC, CANC), (PCXL, PCXL), (PREP, PREP),
       (EXP, EXP), (SUSP, SUSP))
# resume (restated) to the status before suspension; cancel while suspended
_t(SUSP, ("D", NEW), ("D", PART), (CANC, CANC))
# B.1.a: pending cancel -> canceled
_t(PCXL, (CANC, CANC))
# C.1.a-c, C.2.a-c: pending replace + Replaced -> new / partially filled / filled
_t(PREP, ("5", NEW), ("5", PART), ("5", FILLED))

# kind 9 (cancel reject): the reject answers a pending request and carries the
# exchange's real status, which the order must adopt: too-late-to-cancel
# (filled / canceled / expired), unknown order (rejected, B.1.f), plain reject
# (new / partially filled / suspended).
T9_ROWS = PENDING_REQ
T9_COLS = {NEW, PART, FILLED, CANC, REJ, EXP, SUSP}

CL_TOTAL = "the transition function ... signals the library's order error (and only that)"
CL_CLOSED = "either returns the reported status, or returns 'no change', or signals the library's order error"
CL_MODE = "signals the order error only when asked to raise; otherwise 'no change'"
CL_UNSUP = "unsupported message kinds are answered with the order error, never with a status"
CL_FIN = "finished statuses (filled, canceled, rejected, expired) are absorbing"
CL_CRE = "no report moves an order back to created"
CL_PN = "no report moves an order from an acknowledged state back to pending-new"
CL_JC = "a just-created order accepts only pending-new or rejected"
CL_PEND = "while a cancel / replace request is pending the pending status wins over any other report"
CL_T = "transitions the exchange causes per the FIX 4.4 order state change matrices must be taken"
CL_RQ_OK = "cancel/replace requests are permitted exactly for new, partially filled and suspended orders"
CL_RQ_IGN = "cancel/replace requests are ignored while a request is pending"
CL_RQ_REF = "cancel/replace requests are refused otherwise"
CL_FUNC = ("for every combination of current status, message kind, ExecType and reported status the transition "
           "function returns ... (the result is determined by the combination, not by the calls made before)")
CL_PRED = "can_cancel / can_replace / is_finished agree with the transition rules"


def cell(kind, cur, ex, rep):
    """R7: -> (type, clause, clause id, cause class). Arguments are canonical values."""
    if kind == "8":
        # -- S cells from the lifecycle clauses (priority: most specific first)
        if cur == Z and rep not in (A, REJ):
            return "S", CL_JC, "created_accepts_only", "reported:" + ROW_CLASS[rep]
        if cur in FINISHED:
            return "S", CL_FIN, "finished_absorbing", "row:" + SNAME[cur]
        if rep == Z:
            return "S", CL_CRE, "back_to_created", "row:" + ROW_CLASS[cur]
        if rep == A and cur in ACKNOWLEDGED:
            return "S", CL_PN, "back_to_pending_new", "row:" + ROW_CLASS[cur]
        if cur == PCXL and rep != CANC:
            return "S", CL_PEND, "pending_wins", "row:PENDING_CANCEL"
        if cur == PREP and ex != "5":
            return "S", CL_PEND, "pending_wins", "row:PENDING_REPLACE"
        if (cur, ex, rep) in T8:
            return "T", CL_T, "must_transit", "exec_report:" + SNAME[cur]
        return "X", "", "", ""
    if kind == "9":
        # the lifecycle clauses are stated for every combination, hence for the
        # cancel reject too (same priority as for kind 8); no pending_wins here:
        # the reject is the answer to the pending request
        if cur == Z and rep not in (A, REJ):
            return "S", CL_JC, "created_accepts_only", "cancel_reject"
        if cur in FINISHED:
            return "S", CL_FIN, "finished_absorbing", "cancel_reject:finished_row"
        if rep == Z:
            return "S", CL_CRE, "back_to_created", "cancel_reject:" + (
                "request_pending" if cur in PENDING_REQ else "no_request_pending")
        if rep == A and cur in ACKNOWLEDGED:
            return "S", CL_PN, "back_to_pending_new", "cancel_reject:" + ROW_CLASS[cur]
        if cur in T9_ROWS and rep in T9_COLS and ex == MARKER:
            return "T", CL_T, "must_transit", "cancel_reject:" + SNAME[cur]
        return "X", "", "", ""
    if kind in ("F", "G"):
        natural = ex == MARKER and rep == (PCXL if kind == "F" else PREP)
        kn = KIND_NAME[kind]
        if cur in REQUESTABLE:
            if natural:
                return "T", CL_RQ_OK, "request_permitted", kn + ":" + SNAME[cur]
            # odd arguments on a requestable row: unconstrained ("no REPORT moves
            # an order back ..." - a request is not a report)
            return "X", "", "", ""
        if cur in PENDING_REQ:
            if natural:
                return "N", CL_RQ_IGN, "request_ignored", kn + ":" + SNAME[cur]
            return "S", CL_RQ_IGN, "request_ignored", kn + ":" + SNAME[cur] + ":odd_args"
        if natural:
            return "E", CL_RQ_REF, "request_refused", kn + ":" + ROW_CLASS[cur]
        return "S", CL_RQ_REF, "request_refused", kn + ":" + ROW_CLASS[cur] + ":odd_args"
    return "U", CL_UNSUP, "unsupported_kind", "kind"


# ----------------------------------------------------------------------------
# real code access
# ----------------------------------------------------------------------------
_LIB = {}


def lib():
    if not _LIB:
        from asyncfix import FMsg
        from asyncfix.errors import FIXError
        from asyncfix.protocol.common import FExecType, FOrdStatus
        from asyncfix.protocol.order_single import FIXNewOrderSingle

        _LIB.update(FMsg=FMsg, FIXError=FIXError, FExecType=FExecType, FOrdStatus=FOrdStatus,
                    Order=FIXNewOrderSingle)
    return _LIB


class DomainError(Exception):
    pass


def spell_status(v, how):
    if how == "str":
        return v
    L = lib()
    m = getattr(L["FOrdStatus"], SNAME[v], None)
    if m is None:
        raise DomainError(f"FOrdStatus has no member {SNAME[v]}")
    return m


def spell_exec(v, how):
    if v == MARKER:
        return 0
    if how == "str":
        return v
    m = getattr(lib()["FExecType"], ENAME[v], None)
    if m is None:
        raise DomainError(f"FExecType has no member {ENAME[v]}")
    return m


KIND_ENUM_NAME = {"8": "EXECUTIONREPORT", "9": "ORDERCANCELREJECT", "F": "ORDERCANCELREQUEST",
                  "G": "ORDERCANCELREPLACEREQUEST", "D": "NEWORDERSINGLE", "7": "ADVERTISEMENT",
                  "0": "HEARTBEAT", "AE": "TRADECAPTUREREPORT"}


def spell_kind(v, how):
    if how == "str" or not isinstance(v, str) or v not in KIND_ENUM_NAME:
        return v
    m = getattr(lib()["FMsg"], KIND_ENUM_NAME[v], None)
    if m is None:
        raise DomainError(f"FMsg has no member {KIND_ENUM_NAME[v]}")
    return m


def canon(x):
    """Canonical value of something returned as a status (None if it is not one)."""
    if isinstance(x, enum.Enum):
        x = x.value
    if isinstance(x, str):
        return x
    return None


def call(kind, cur, ex, rep, raise_mode, sp):
    """One real call. sp = (kind, status, exec, reported) spellings.
    -> ("none",) | ("status", value) | ("other", repr) | ("fixerror",) | ("exc", type name)"""
    L = lib()
    args = (spell_status(cur, sp[1]), spell_kind(kind, sp[0]), spell_exec(ex, sp[2]),
            spell_status(rep, sp[3]))
    try:
        if raise_mode == "default":
            r = L["Order"].change_status(*args)
        else:
            r = L["Order"].change_status(*args, raise_on_err=raise_mode)
    except L["FIXError"]:
        return ("fixerror",)
    except Exception as e:  # noqa: BLE001 - totality is the property
        return ("exc", type(e).__name__)
    if r is None:
        return ("none",)
    c = canon(r)
    if c is not None and not isinstance(r, bool):
        return ("status", c)
    return ("other", repr(r)[:60])


def judge(kind, cur, ex, rep, raising, obs):
    """-> None or (clause, clause id, cause class, expected text)."""
    supported = isinstance(kind, str) and kind in SUPPORTED_KINDS
    kn = KIND_NAME.get(kind, "unsupported") if isinstance(kind, str) else "unsupported"
    tag = obs[0]
    # -- totality / closure / error mode, everywhere
    if tag == "exc":
        return CL_TOTAL, "totality", f"{kn}:{obs[1]}", "reported status | None | FIXError"
    if tag == "other" or (tag == "status" and obs[1] != rep):
        return CL_CLOSED, "closure", f"{kn}:returned_something_else", "reported status | None | FIXError"
    if tag == "fixerror" and not raising:
        return CL_MODE, "error_mode", f"{kn}:raised_when_not_asked", "None"
    typ, clause, cid, cause = cell(kind if supported else "?", cur, ex, rep)
    if typ == "X":
        return None
    if typ == "U":
        if tag == "status":
            return clause, cid, "returned_status", "FIXError"
        if raising and tag != "fixerror":
            return clause, cid, "no_error_when_asked_to_raise", "FIXError"
        if not raising and tag != "none":
            return clause, cid, "not_no_change_when_not_asked_to_raise", "None"
        return None
    if typ == "T":
        if tag == "status" or (tag == "none" and rep == cur):
            return None
        return clause, cid, cause, f"returns {SNAME[rep]}"
    if typ == "S":
        if tag == "none" or (tag == "fixerror" and raising):
            return None
        if tag == "status" and rep == cur:
            return None  # the current status itself: nothing moved
        return clause, cid, cause, "None (or FIXError when asked to raise)"
    if typ == "N":
        if tag == "none":
            return None
        return clause, cid, cause, "None in both error modes"
    if typ == "E":
        if (raising and tag == "fixerror") or (not raising and tag == "none"):
            return None
        return clause, cid, cause, "FIXError when asked to raise, None otherwise"
    raise AssertionError(typ)


# ----------------------------------------------------------------------------
# exploration
# ----------------------------------------------------------------------------
ALL_ENUM = ("enum", "enum", "enum", "enum")
ALL_STR = ("str", "str", "str", "str")
EXEC_DOMAIN = [MARKER] + [v for _, v in EXECTYPES]
# error modes: explicit True / False and the default (documented as raising)
MODES_QUICK = [True, False, "default"]
MODES_THOROUGH = [True, False, "default"]

CFG = {}


def spellings_for(kind, quick):
    if quick:
        return [ALL_ENUM, ALL_STR]
    rest = [s for s in itertools.product(("enum", "str"), repeat=4) if s != ALL_ENUM]
    rest.sort(key=lambda s: (s.count("str"), s))
    return [ALL_ENUM] + rest


def effective(kind, ex, sp):
    """Arguments with a single spelling (the int marker, kinds that are not FMsg
    members) are labelled "enum" so that equal calls are recognised as equal."""
    k = sp[0] if (isinstance(kind, str) and kind in KIND_ENUM_NAME) else "enum"
    e = sp[2] if ex != MARKER else "enum"
    return (k, sp[1], e, sp[3])


def sp_name(sp):
    names = ("kind", "status", "exec", "reported")
    plain = [n for n, s in zip(names, sp) if s == "str"]
    return "+".join(plain) if plain else "enum"


def mk_replay(kind, cur, ex, rep, mode, sp):
    return {"fn": "change_status", "kind": kind, "status": cur, "exec": ex, "reported": rep,
            "raise_on_err": mode, "spelling": list(sp)}


def check_point(kind, cur, ex, rep, mode, sp, enum_failed):
    """One call + verdict. -> (obs, violation dict or None)."""
    raising = mode is not False
    obs = call(kind, cur, ex, rep, mode, sp)
    bad = judge(kind, cur, ex, rep, raising, obs)
    if bad is None:
        return obs, None
    clause, cid, cause, expected = bad
    sig = f"{cid}|{cause}"
    if tuple(sp) != ALL_ENUM and not enum_failed:
        # the same cell is fine when every argument is an enum member: the
        # spelling is the cause (which arguments: see detail; spellings are
        # enumerated fewest-plain-arguments first, so the kept case is minimal)
        kn = KIND_NAME.get(kind, "unsupported") if isinstance(kind, str) else "unsupported"
        sig = f"{cid}|plain_spelling:{kn}"
    return obs, {
        "signature": sig,
        "clause": clause,
        "detail": {"current": SNAME[cur], "kind": kind, "exec_type": ENAME[ex], "reported": SNAME[rep],
                   "raise_on_err": mode, "spelling": sp_name(sp), "observed": list(obs),
                   "expected": expected},
        "replay": mk_replay(kind, cur, ex, rep, mode, sp),
        "count": 1,
    }


def _work(item):
    """All cells of one (kind, current status) row, every spelling and mode."""
    kind, cur = item
    quick = CFG["quick"]
    modes = MODES_QUICK if quick else MODES_THOROUGH
    sps = spellings_for(kind, quick)
    viol = {}
    outcomes = set()
    calls = 0
    inputs = 0
    constrained = 0
    types = {}
    supported = isinstance(kind, str) and kind in SUPPORTED_KINDS
    for ex in EXEC_DOMAIN:
        for rep in (v for _, v in STATUSES):
            typ = cell(kind if supported else "?", cur, ex, rep)[0]
            types[typ] = types.get(typ, 0) + 1
            if typ not in ("X", "U"):
                constrained += 1
            for mode in modes:
                enum_failed = False
                seen = set()
                for sp in sps:
                    sp = effective(kind, ex, sp)
                    if sp in seen:
                        continue  # same call as an earlier spelling of this cell
                    seen.add(sp)
                    inputs += 1
                    calls += 1
                    obs, v = check_point(kind, cur, ex, rep, mode, sp, enum_failed)
                    outcomes.add(obs[0])
                    if v is not None:
                        if sp == ALL_ENUM:
                            enum_failed = True
                        s = v["signature"]
                        if s in viol:
                            viol[s]["count"] += 1
                        else:
                            viol[s] = v
    return {"viol": list(viol.values()), "outcomes": sorted(outcomes), "calls": calls,
            "inputs": inputs, "constrained": constrained, "types": types}


# ---- predicates ---------------------------------------------------------------
ROOTS = ["ord", "clord-7", "A1", "x_y"]


def predicate_point(fn, cur, how, root, enum_failed=False):
    """-> (obs, violation or None)."""
    L = lib()
    o = L["Order"](root, "TICK", "1", 10.0, 2.0)
    o.status = spell_status(cur, how)
    expected = (cur in FINISHED) if fn == "is_finished" else (cur in REQUESTABLE)
    try:
        r = getattr(o, fn)()
        obs = ("bool", bool(r)) if isinstance(r, (bool, int)) else ("other", repr(r)[:40])
    except Exception as e:  # noqa: BLE001
        obs = ("exc", type(e).__name__)
    if obs == ("bool", expected):
        return obs, None
    cause = f"{fn}:{ROW_CLASS[cur]}" if obs[0] != "exc" else f"{fn}:{obs[1]}"
    if how == "str" and not enum_failed:
        cause = f"plain_spelling:{fn}"
    return obs, {
        "signature": f"predicate|{cause}",
        "clause": CL_PRED,
        "detail": {"fn": fn, "status": SNAME[cur], "spelling": how, "observed": list(obs),
                   "expected": expected},
        "replay": {"fn": fn, "status": cur, "spelling": how, "root": root},
        "count": 1,
    }

# ---- history dependence -----------------------------------------------------------
# The statement quantifies over combinations of the arguments: the result is a
# function of (current status, kind, ExecType, reported status, error mode).
# Oracle: the same cell called twice in ONE process gives the same answer, whatever
# was called in between.  Enumeration: the complete table (all-enum spelling, both
# error modes; the plain spelling of every cell is called too, as an intervening
# call) is swept twice in one fresh process, once per listed order.  With the
# table order and its reverse, for EVERY ordered pair of cells (x, y) one of the
# two processes calls y before any x and again after x: a call x that changes the
# answer of a later call y (module state kept between calls) shows up as two
# different answers for y.  (Bound: one intervening sweep; a change undone again
# by a third call in between is not seen.)  The answers themselves are judged by
# R7 in the main pass.
HIST_MODES = [True, False]
HIST = {}


def _fresh_many(fn, args):
    """[fn(a) for a in args], each in its own forked child of this process (module
    state of the library mutated by the calls dies with the child); children run
    concurrently."""
    kids = []
    for a in args:
        r, w = os.pipe()
        pid = os.fork()
        if pid == 0:
            try:
                os.close(r)
                try:
                    data = pickle.dumps(("ok", fn(a)))
                except BaseException as e:  # noqa: BLE001
                    data = pickle.dumps(("err", repr(e)))
                with os.fdopen(w, "wb") as f:
                    f.write(data)
            finally:
                os._exit(0)
        os.close(w)
        kids.append((pid, r))
    out = []
    for pid, r in kids:
        with os.fdopen(r, "rb") as f:
            data = f.read()
        os.waitpid(pid, 0)
        tag, val = pickle.loads(data) if data else ("err", "child died")
        if tag != "ok":
            from mc.runner import HarnessError
            raise HarnessError(f"history pass child failed: {val}")
        out.append(val)
    return out


def _fresh(fn, arg):
    return _fresh_many(fn, [arg])[0]


def hist_cells(n_kinds):
    """The table in its canonical order: cells (kind index, current, exec, reported, mode)."""
    return [(ki, cur, ex, rep, mode) for ki in range(n_kinds) for _, cur in STATUSES
            for ex in EXEC_DOMAIN for _, rep in STATUSES for mode in HIST_MODES]


def hist_order(name, n_kinds):
    """Named orders: "fwd", "rev", "rot<k>" (kinds rotated to start at kind k), "rotrev<k>"."""
    if name == "fwd":
        return hist_cells(n_kinds)
    if name == "rev":
        return hist_cells(n_kinds)[::-1]
    k = int(name.lstrip("rotev"))
    per = len(hist_cells(1))
    cells = hist_cells(n_kinds)
    cells = cells[k * per:] + cells[:k * per]
    return cells[::-1] if name.startswith("rotrev") else cells


def hist_orders(n_kinds, quick):
    names = ["fwd", "rev"]
    if not quick:
        names += [f"rot{k}" for k in range(1, n_kinds)] + [f"rotrev{k}" for k in range(1, n_kinds)]
    return names


def _hcall(c, sp=ALL_ENUM):
    return call(HIST["kinds"][c[0]], c[1], c[2], c[3], c[4], sp)


def _hist_sig(kind):
    kn = KIND_NAME.get(kind, "unsupported") if isinstance(kind, str) else "unsupported"
    return f"history|depends_on_earlier_calls:{kn}"


def _double_sweep_child(name):
    kinds = HIST["kinds"]
    order = hist_order(name, len(kinds))
    first = {}
    for c in order:
        first[c] = _hcall(c)
        _hcall(c, ALL_STR)
    diffs = {}
    for c in order:
        o = _hcall(c)
        if o != first[c]:
            s = _hist_sig(kinds[c[0]])
            if s in diffs:
                diffs[s][1] += 1
            else:
                diffs[s] = [c, 1]
    return {"diffs": diffs, "calls": 3 * len(order)}


def _sequence_child(spec):
    """[order name, number of leading calls of it] then the primer cells, then the cell."""
    name, k, primer, cell_ = spec
    if name:
        for c in hist_order(name, len(HIST["kinds"]))[:k]:
            _hcall(c)
            _hcall(c, ALL_STR)
    for c in primer:
        _hcall(tuple(c))
        _hcall(tuple(c), ALL_STR)
    return _hcall(tuple(cell_))


def _cell_text(kinds, c):
    return (f"change_status({SNAME[c[1]]}, {kinds[c[0]]!r}, {ENAME[c[2]]}, {SNAME[c[3]]}, "
            f"raise_on_err={c[4]})")


def hist_violation(kinds, name, k, primer, y):
    """Re-run one sequence in fresh processes. -> violation dict or None."""
    HIST["kinds"] = kinds
    y = tuple(y)
    primer = [tuple(c) for c in primer]
    alone, after = _fresh_many(_sequence_child, [(None, 0, [], y), (name, k, primer, y)])
    if alone == after:
        return None
    kind = kinds[y[0]]
    earlier = ([f"the first {k} cells of the table in order {name!r} (each in both spellings)"] if name else []) \
        + [_cell_text(kinds, c) for c in primer]
    return {
        "signature": _hist_sig(kind),
        "clause": CL_FUNC,
        "detail": {"earlier_calls": earlier, "call": _cell_text(kinds, y),
                   "observed_after_earlier_calls": list(after), "observed_in_fresh_process": list(alone),
                   "expected": "the same answer as in a fresh process"},
        "replay": {"fn": "history", "kinds": list(kinds), "order": name, "leading": k,
                   "primer": [list(c) for c in primer], "cell": list(y)},
        "count": 1,
    }


def hist_attribute(kinds, name, y):
    """Smallest leading part of the order after which y answers differently (bisection, fresh
    process per probe), then the single last call of it alone."""
    n = len(hist_order(name, len(kinds))) + 1
    alone = _fresh(_sequence_child, (None, 0, [], y))
    lo, hi = 0, n  # answer differs after `hi` leading calls (or only in the second sweep), not after `lo`
    if _fresh(_sequence_child, (name, n - 1, [], y)) == alone:
        return None
    hi = n - 1
    while hi - lo > 1:
        mid = (lo + hi) // 2
        if _fresh(_sequence_child, (name, mid, [], y)) != alone:
            hi = mid
        else:
            lo = mid
    x = hist_order(name, len(kinds))[hi - 1]
    return hist_violation(kinds, None, 0, [x], y) or hist_violation(kinds, name, hi, [], y)


def history_pass(ctx, kinds):
    HIST.clear()
    HIST["kinds"] = kinds
    names = hist_orders(len(kinds), ctx.quick)
    res = _fresh_many(_double_sweep_child, names)
    calls = 0
    first = {}
    for name, r in zip(names, res):
        calls += r["calls"]
        for s, (c, n) in sorted(r["diffs"].items()):
            if s in first:
                first[s][2] += n
            else:
                first[s] = [name, tuple(c), n]
    ctx.outcomes.add("same_answer_again")
    for s, (name, y, n) in sorted(first.items()):
        ctx.outcomes.add("other_answer_again")
        v = hist_attribute(kinds, name, y)
        if v is None:
            # not reproducible from the first sweep alone: keep the whole double sweep as the case
            v = hist_violation(kinds, name, len(hist_order(name, len(kinds))), [], y)
        if v is None:
            from mc.runner import HarnessError
            raise HarnessError(f"history difference not reproducible: order {name} cell {y}")
        v["count"] = n
        ctx.merge_violations([v])
    cells = len(hist_cells(len(kinds)))
    ctx.count(history_cells_called_again=len(names) * cells)
    return calls, len(names) * cells, {"orders": names, "cells_per_sweep": cells, "sweeps_per_order": 2,
                                      "spellings_first_sweep": ["enum", "kind+status+exec+reported"],
                                      "spelling_second_sweep": "enum",
                                      "error_modes": [repr(m) for m in HIST_MODES]}


def run(ctx):
    CFG["quick"] = ctx.quick
    lib()
    unsupported = UNSUPPORTED_QUICK if ctx.quick else UNSUPPORTED_THOROUGH
    kinds = SUPPORTED_KINDS + unsupported
    ctx.rule = ("every point of status x kind x (ExecType + omitted marker) x reported status x error mode, "
                "called on the real FIXNewOrderSingle.change_status under each listed spelling of the arguments; "
                "enumeration is row by row in life-cycle order, all-enum spelling first; "
                "non-trivial = (kind, status, ExecType, reported) cell of a supported kind whose reference type "
                "is T must-transit, S must-not-move, N must-ignore or E must-refuse (not X, not unsupported-kind), "
                "plus the 3 x 15 predicate cells; history pass: the complete table called twice in one fresh "
                "process per listed order, the second answer of each cell compared with its first")
    try:
        for v, _ in [(v, n) for n, v in STATUSES]:
            spell_status(v, "enum")
        for _, v in EXECTYPES:
            spell_exec(v, "enum")
        for k in kinds:
            spell_kind(k, "enum")
    except DomainError as e:
        from mc.runner import HarnessError
        raise HarnessError(f"vocabulary of the library changed: {e}")
    extra_s = [m.name for m in lib()["FOrdStatus"] if m.name not in dict(STATUSES)]
    extra_e = [m.name for m in lib()["FExecType"] if m.name not in dict(EXECTYPES)]
    if extra_s or extra_e:
        ctx.notes.append(f"library enums have members outside the reference vocabulary: {extra_s + extra_e}")
        ctx.cap("enum members unknown to the reference vocabulary are not explored")

    # history pass first: nothing has called the transition function in this process yet
    hcalls, hinputs, hbounds = history_pass(ctx, kinds)

    items = [(k, cur) for k in kinds for _, cur in STATUSES]
    res = ctx.pmap(_work, items, chunk=1)
    types = {}
    constrained = 0
    calls, inputs = hcalls, hinputs
    for (k, cur), r in zip(items, res):
        ctx.merge_violations(r["viol"])
        ctx.outcomes.update(r["outcomes"])
        calls += r["calls"]
        inputs += r["inputs"]
        constrained += r["constrained"]
        for t, n in r["types"].items():
            types[t] = types.get(t, 0) + n

    # predicates on every status, both spellings, on a real order object
    root = ROOTS[ctx.seed % len(ROOTS)]
    pcalls = 0
    for fn in ("can_cancel", "can_replace", "is_finished"):
        for _, cur in STATUSES:
            enum_failed = False
            for how in ("enum", "str"):
                obs, v = predicate_point(fn, cur, how, root, enum_failed)
                pcalls += 1
                ctx.outcomes.add(f"{fn}={obs[1]}" if obs[0] == "bool" else obs[0])
                if v:
                    enum_failed = True
                    ctx.merge_violations([v])

    ctx.count(states=inputs + pcalls, transitions=calls + pcalls, traces=calls + pcalls,
              evaluations=calls + pcalls, nontrivial=constrained + 3 * len(STATUSES))
    ctx.bounds = {
        "statuses": len(STATUSES), "kinds_supported": SUPPORTED_KINDS,
        "kinds_unsupported": [repr(k) for k in unsupported],
        "exec_types": len(EXECTYPES), "exec_marker": "int 0",
        "error_modes": [repr(m) for m in (MODES_QUICK if ctx.quick else MODES_THOROUGH)],
        "spellings": [sp_name(s) for s in spellings_for("8", ctx.quick)],
        "cells": len(kinds) * len(STATUSES) * len(EXEC_DOMAIN) * len(STATUSES),
        "reference_cells_by_type": types,
        "predicate_calls": pcalls,
        "history_pass": hbounds,
    }
    ctx.assumptions += [
        "the domain is the FIX 4.4 OrdStatus / ExecType vocabulary plus the library's internal 'created' "
        "status (members are looked up by name in the library's enums; values come from the reference)",
        "the lifecycle clauses (finished absorbing, never back to created / pending-new, created accepts only "
        "pending-new or rejected) are applied to every supported kind, the cancel reject (9) included; an S cell "
        "is satisfied by None, by the current status itself, or by the order error when asked to raise "
        "(this supersedes the narrower reading of DESIGN C16 for kind 9; the existing test "
        "test_state_transition__pendingreplce__ord_reject pins PENDING_REPLACE + 9 + PENDING_NEW -> PENDING_NEW)",
        "T cells of kind 8 are demanded only for the (ExecType, OrdStatus) pairs an exchange emits; "
        "the same reported status under another ExecType is unconstrained",
        "unsupported kinds: order error when asked to raise, None otherwise (as the statement says)",
        "history pass: 'for every combination ... the transition function returns ...' is read as: the answer is "
        "determined by the combination (current status, kind, ExecType, reported status, error mode); the fresh "
        "oracle is 'the same cell asked twice in one process answers the same'; dependence on earlier calls is "
        "explored for every ordered pair of cells (the complete table swept twice in one fresh process, in table "
        "order and in reverse order), not for arbitrary call sequences (an effect undone by a third call in "
        "between is out of bound)",
    ]
    ctx.sample({"cell": ["NEW", "8", "TRADE", "FILLED"], "type": cell("8", NEW, "F", FILLED)[0]})
    ctx.sample({"cell": ["FILLED", "8", "TRADE", "PARTIALLY_FILLED"], "type": cell("8", FILLED, "F", PART)[0]})
    ctx.sample({"cell": ["CREATED", "8", "NEW", "NEW"], "type": cell("8", Z, "0", NEW)[0]})
    ctx.sample({"cell": ["PENDING_REPLACE", "9", "0", "PARTIALLY_FILLED"], "type": cell("9", PREP, MARKER, PART)[0]})
    ctx.sample({"cell": ["SUSPENDED", "F", "0", "PENDING_CANCEL"], "type": cell("F", SUSP, MARKER, PCXL)[0]})
    ctx.sample({"cell": ["PARTIALLY_FILLED", "8", "TRADE", "DONE_FOR_DAY"], "type": cell("8", PART, "F", DFD)[0]})


def replay(ctx, rep):
    lib()
    if rep["fn"] == "history":
        v = hist_violation(list(rep["kinds"]), rep["order"], rep["leading"], rep["primer"], rep["cell"])
        return [v] if v else []
    if rep["fn"] == "change_status":
        sp = tuple(rep["spelling"])
        kind, cur, ex, r, mode = rep["kind"], rep["status"], rep["exec"], rep["reported"], rep["raise_on_err"]
        enum_failed = False
        if sp != ALL_ENUM:
            _, v0 = check_point(kind, cur, ex, r, mode, ALL_ENUM, False)
            enum_failed = v0 is not None
        _, v = check_point(kind, cur, ex, r, mode, sp, enum_failed)
        return [v] if v else []
    enum_failed = False
    if rep["spelling"] != "enum":
        _, v0 = predicate_point(rep["fn"], rep["status"], "enum", rep.get("root", ROOTS[0]))
        enum_failed = v0 is not None
    _, v = predicate_point(rep["fn"], rep["status"], rep["spelling"], rep.get("root", ROOTS[0]), enum_failed)
    return [v] if v else []
