#!/venv/bin/python
"""Import seeded changes produced by an independent sub-agent in a scratch worktree:
   seeded_import.py C04 /tmp/wt_c04   ->  /verif/seeded/C04_m1 ... (patch.diff, demo.py, notes.md, meta.json)"""
import json, os, re, shutil, sys

pid, wt = sys.argv[1], sys.argv[2].rstrip("/")
tag = sys.argv[3] if len(sys.argv) > 3 else "m"
src = os.path.join(wt, "_mutant")
for i in range(1, 10):
    d = os.path.join(src, f"m{i}.diff")
    if not os.path.exists(d):
        continue
    out = os.path.join("/verif/seeded", f"{pid}_{tag}{i}")
    os.makedirs(out, exist_ok=True)
    shutil.copy(d, os.path.join(out, "patch.diff"))
    demo = os.path.join(src, f"demo{i}.py")
    has_demo = os.path.exists(demo)
    cmd = None
    if has_demo:
        txt = open(demo).read().replace(wt, ".")
        open(os.path.join(out, "demo.py"), "w").write(txt)
        is_pytest = bool(re.search(r"^def test_|^async def test_", txt, re.M))
        cmd = ("/venv/bin/python -m pytest -q -p no:cacheprovider {dir}/demo.py" if is_pytest else "/venv/bin/python {dir}/demo.py")
    for extra in os.listdir(src):
        if extra.endswith(".py") and not extra.startswith("demo") or extra == "demo_common.py":
            open(os.path.join(out, extra), "w").write(open(os.path.join(src, extra)).read().replace(wt, "."))
    notes = os.path.join(src, f"m{i}.md")
    ntxt = open(notes).read().replace(wt, "<worktree>") if os.path.exists(notes) else ""
    open(os.path.join(out, "notes.md"), "w").write(ntxt)
    meta = {"property": pid, "checks": [pid], "demo": has_demo, "demo_cmd": cmd,
            "origin": "independent sub-agent given only the property text and a scratch worktree",
            "needs_to_manifest": "see notes.md", "confirmed": None}
    json.dump(meta, open(os.path.join(out, "meta.json"), "w"), indent=1)
    print("imported", out)
