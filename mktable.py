#!/venv/bin/python
"""Maintain seeded/*/meta.json, seeded/RESULTS.jsonl and the table of DESIGN.md section 9.4.

  mktable.py ingest <selftest-output> [...]   merge JSON lines printed by ./selftest into meta.json / RESULTS.jsonl
  mktable.py table                            rewrite the table between the SEEDED-TABLE markers of DESIGN.md
"""
import json
import os
import sys

ROOT = os.path.dirname(os.path.abspath(__file__))
SEEDED = os.path.join(ROOT, "seeded")
BEGIN, END = "<!-- SEEDED-TABLE-BEGIN -->", "<!-- SEEDED-TABLE-END -->"


def names():
    return sorted(d for d in os.listdir(SEEDED) if os.path.isfile(os.path.join(SEEDED, d, "meta.json")))


def ingest(paths):
    res = {}
    rp = os.path.join(SEEDED, "RESULTS.jsonl")
    if os.path.exists(rp):
        for line in open(rp):
            r = json.loads(line)
            res[r[0]] = r
    for p in paths:
        for line in open(p):
            if not line.startswith("["):
                continue
            rec = json.loads(line)
            if len(rec) != 4 or rec[1] in ("PATCH-FAILED", "SUPERSEDED"):
                continue
            name, tests, demo, checks = rec
            old = res.get(name)
            if old and tests == "skipped":
                tests, demo = old[1], old[2]
            res[name] = [name, tests, demo, checks]
            mp = os.path.join(SEEDED, name, "meta.json")
            m = json.load(open(mp))
            if tests != "skipped":
                m["confirmed"] = {"repository_tests_with_change": tests, "demo": demo,
                                  "how": f"./selftest {name} --clean-demo (scratch copy of /repo, patch applied, pytest tests, demo from _mutant/, checks with VERIF_REPO=<copy>)"}
            m["reported_by"] = [{"check": c, "signatures": sigs} for c, rc, sigs, _t in checks if rc == 1 and sigs]
            json.dump(m, open(mp, "w"), indent=1)
    with open(rp, "w") as f:
        for k in sorted(res):
            f.write(json.dumps(res[k]) + "\n")


def table():
    rows = ["| seeded change | what it does (producer's summary) | reported by (first signature) |", "|---|---|---|"]
    n = hit = 0
    for name in names():
        m = json.load(open(os.path.join(SEEDED, name, "meta.json")))
        np_ = os.path.join(SEEDED, name, "notes.md")
        summ = open(np_).readline().strip().lstrip("# ").replace("|", "\\|")[:140] if os.path.exists(np_) else ""
        rb = m.get("reported_by") or []
        if m.get("superseded"):
            rows.append(f"| {name} | {summ} | superseded: {m['superseded'][:160].replace('|', chr(92) + '|')} |")
            continue
        n += 1
        hit += bool(rb)
        cell = "; ".join(f"{r['check']}: {r['signatures'][0]}".replace("|", "\\|") for r in rb) or "**not reported** (see text)"
        rows.append(f"| {name} | {summ} | {cell} |")
    dp = os.path.join(ROOT, "DESIGN.md")
    s = open(dp).read()
    a, b = s.index(BEGIN), s.index(END)
    s = s[:a] + BEGIN + "\n" + f"{hit} of {n} seeded changes reported.\n\n" + "\n".join(rows) + "\n" + s[b:]
    open(dp, "w").write(s)
    print(f"{hit}/{n}")


if __name__ == "__main__":
    if sys.argv[1] == "ingest":
        ingest(sys.argv[2:])
    else:
        table()
